//! Only here so that cargo builds brood + rayon rlibs for the C14 program family.
