// generated schedule programs live in src/bin
