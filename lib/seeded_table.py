#!/usr/bin/env python3
"""Rewrite the seeded-changes table in DESIGN.md from seeded/*/meta.json."""
import glob, json, os, re
ROOT = os.path.dirname(os.path.dirname(os.path.abspath(__file__)))
rows = []
for f in sorted(glob.glob(os.path.join(ROOT, "seeded", "*", "meta.json"))):
    m = json.load(open(f))
    checks = m.get("checks", {})
    ran = ", ".join(f"{c}:{'VIOLATION' if r['rc'] == 1 else 'silent' if r['rc'] == 0 else 'inconclusive'}" for c, r in checks.items())
    summ = (m.get("summary") or "").replace("\n", " ").replace("|", "/")
    if len(summ) > 260:
        summ = summ[:257] + "..."
    needs = (m.get("needs") or "").replace("\n", " ").replace("|", "/")
    if len(needs) > 200:
        needs = needs[:197] + "..."
    rows.append(f"| `{m['seed_id']}` | {m.get('property')} | {summ} | {needs} | {'yes' if m['confirmation'].get('confirmed') else 'NO'} | {ran} |")
table = "| seeded change | written for | what it does | needs | confirmed | checks run against it (quick tier, Miri shards off) |\n|---|---|---|---|---|---|\n" + "\n".join(rows) + "\n"
p = os.path.join(ROOT, "DESIGN.md")
s = open(p).read()
if "SEEDED_TABLE_PLACEHOLDER" in s:
    s = s.replace("SEEDED_TABLE_PLACEHOLDER", "<!-- seeded-table-begin -->\n" + table + "<!-- seeded-table-end -->")
else:
    s = re.sub(r"<!-- seeded-table-begin -->.*?<!-- seeded-table-end -->", lambda _: "<!-- seeded-table-begin -->\n" + table + "<!-- seeded-table-end -->", s, flags=re.S)
open(p, "w").write(s)
print(len(rows), "rows")
