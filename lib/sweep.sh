#!/bin/sh
# Run every registered quick check once with the given VERIF_SEED and print one line per check.
# usage: lib/sweep.sh <seed> [tier]
seed=${1:-1}; tier=${2:-quick}
cd "$(dirname "$0")/.."
for p in C01 C02 C03 C04 C05 C06 C07 C08 C09 C10 C11 C12 C13 C14 C15 C16 C17 C18; do
  t0=$(date +%s)
  out=$(VERIF_SEED=$seed ./check $p $tier 2>/dev/null | grep -E "^(OK|VIOLATION|INCONCLUSIVE)" | cut -c1-160)
  echo "seed=$seed $p $(( $(date +%s) - t0 ))s $out"
done
