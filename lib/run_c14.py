#!/usr/bin/env python3
"""C14 runner: compile the generated accept/reject family against brood built from the current
tree, and execute everything that compiles under Miri.

usage: run_c14.py <out.json> <scratch dir> [--no-miri]
"""
import json, os, re, subprocess, sys, time
from concurrent.futures import ThreadPoolExecutor

ROOT = os.path.dirname(os.path.dirname(os.path.abspath(__file__)))
sys.path.insert(0, os.path.join(ROOT, "lib"))
import plans

out, scratch = sys.argv[1], sys.argv[2]
no_miri = "--no-miri" in sys.argv or plans.NO_MIRI
os.makedirs(scratch, exist_ok=True)
progdir = os.path.join(scratch, "progs")
subprocess.run(["python3", os.path.join(ROOT, "gen", "gen_c14.py"), progdir], check=True, stdout=subprocess.DEVNULL)
index = json.load(open(os.path.join(progdir, "index.json")))

# 1. rlibs of brood and rayon built from the current tree
env = plans.base_env()
env["CARGO_TARGET_DIR"] = plans.TARGET
p = subprocess.run(["cargo", "build", "--offline"] + plans.CARGO_CONFIG + ["-p", "c14base", "--message-format=json"], cwd=ROOT, env=env, stdout=subprocess.PIPE, stderr=subprocess.PIPE)
if p.returncode != 0:
    sys.stderr.write(p.stderr.decode()[-2000:])
    sys.exit(3)
rlib = {}
for line in p.stdout.decode().splitlines():
    try:
        m = json.loads(line)
    except Exception:
        continue
    if m.get("reason") == "compiler-artifact":
        name = m["target"]["name"]
        for f in m["filenames"]:
            if f.endswith(".rlib") and name in ("brood", "rayon"):
                rlib[name] = f
deps = os.path.join(plans.TARGET, "debug", "deps")


def compile_one(item):
    src = os.path.join(progdir, item["name"] + ".rs")
    o = os.path.join(scratch, "meta", item["name"])
    os.makedirs(os.path.dirname(o), exist_ok=True)
    cmd = ["rustc", "--edition", "2021", "--crate-type", "bin", "--emit=metadata", "--cap-lints", "allow", "-L", f"dependency={deps}", "--extern", f"brood={rlib['brood']}", "--extern", f"rayon={rlib['rayon']}", "--error-format=short", src, "-o", o]
    p = subprocess.run(cmd, stdout=subprocess.PIPE, stderr=subprocess.PIPE)
    err = p.stderr.decode("utf-8", "replace")
    codes = sorted(set(re.findall(r"error\[(E\d+)\]", err)))
    return dict(item=item, accepted=p.returncode == 0, codes=codes, err=err[-1500:])


t0 = time.time()
with ThreadPoolExecutor(max_workers=16) as ex:
    results = list(ex.map(compile_one, index))


def miri_run(path, timeout=900):
    e = plans.base_env()
    e["MIRIFLAGS"] = plans.MIRIFLAGS + " -Zmiri-ignore-leaks"
    e["CARGO_TARGET_DIR"] = plans.MIRI_TARGET
    e["C14_PROG"] = path
    try:
        p = subprocess.run(["cargo", "+nightly", "miri", "run", "--offline", "-q"] + plans.CARGO_CONFIG + ["-p", "c14run"], cwd=ROOT, env=e, stdout=subprocess.PIPE, stderr=subprocess.PIPE, timeout=timeout)
        return p.returncode, p.stdout.decode("utf-8", "replace"), p.stderr.decode("utf-8", "replace")
    except subprocess.TimeoutExpired:
        return "timeout", "", ""


# trait-bound, ambiguity-of-index and borrow-checker errors: the ways brood's type-level checks and
# the lifetimes it hands out reject a program
EXPECTED_CODES = {"E0277", "E0599", "E0283", "E0284", "E0271", "E0499", "E0502", "E0505", "E0506", "E0597", "E0716", "E0521", "E0373"}
viols, samples = [], []
classes = {}
rejected_codes = {}
n_bad = n_bad_rejected = n_twin = n_twin_ok = 0
for r in results:
    it = r["item"]
    classes[it["cls"]] = classes.get(it["cls"], 0) + 1
    if it["expect"] == "reject":
        n_bad += 1
        if not r["accepted"] and not (set(r["codes"]) & EXPECTED_CODES):
            # rejected, but not for a conflict / bound / borrow reason: the generated program is broken
            viols.append(dict(prop="HARNESS", sig=f"rejected_for_other_reason:{it['name']}", detail=f"{r['codes']} {r['err'][-500:]}"))
        elif not r["accepted"]:
            n_bad_rejected += 1
            for c in r["codes"]:
                rejected_codes[c] = rejected_codes.get(c, 0) + 1
            if len(samples) < 3:
                samples.append(f"{it['name']} ({it['why']}): rejected with {r['codes']}")
        else:
            detail = f"the program {it['name']} ({it['cls']}: {it['why']}) is accepted by rustc although it must not compile"
            if not no_miri:
                rc, so, se = miri_run(os.path.join(progdir, it["name"] + ".rs"))
                kind, line = plans.classify_miri(se) if rc != "timeout" else ("timeout", "")
                if kind in ("ub", "borrow", "race"):
                    detail += f"; executed under Miri it is witnessed as undefined behaviour: {line}"
                else:
                    detail += f"; Miri run: rc={rc} ({kind})"
            viols.append(dict(prop="C14", sig=f"accepted:{it['name']}", detail=detail))
    else:
        n_twin += 1
        if r["accepted"]:
            n_twin_ok += 1
        else:
            viols.append(dict(prop="C14", sig=f"twin_rejected:{it['name']}", detail=f"the conflict-free twin {it['name']} ({it['why']}) does not compile: {r['codes']}\n{r['err'][-600:]}"))

twins_miri = dict(ran=False)
if not no_miri:
    rc, so, se = miri_run(os.path.join(progdir, "all_twins.rs"), timeout=1800)
    kind, line = plans.classify_miri(se) if rc != "timeout" else ("timeout", "")
    twins_miri = dict(ran=True, rc=str(rc), kind=kind, marker="TWINS-RAN" in so)
    if kind in ("ub", "borrow", "race"):
        viols.append(dict(prop="C14", sig="twin_ub_under_miri", detail=f"an accepted conflict-free program has undefined behaviour under Miri: {line}\n" + "\n".join(se.splitlines()[-25:])))
    elif rc != 0:
        viols.append(dict(prop="HARNESS", sig="twins_miri_failed", detail=f"rc={rc} {kind} {line} " + "\n".join(se.splitlines()[-12:])))

rep = dict(
    monitor="c14",
    cases=len(results),
    distinct=len(results),
    bad_programs=n_bad,
    bad_rejected=n_bad_rejected,
    twins=n_twin,
    twins_compiled=n_twin_ok,
    classes=classes,
    rejection_error_codes=rejected_codes,
    twins_miri=1 if twins_miri.get("marker") else 0,
    compile_wall_s=round(time.time() - t0, 1),
    samples=samples,
    violations=viols,
)
json.dump(rep, open(out, "w"))
