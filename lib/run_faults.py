#!/usr/bin/env python3
"""Run one `faults` shard to completion.

A fault case can kill the process (UB check abort, allocator / glibc abort): that is itself a
C17 observation. The last flushed `CASE` line names the operation; the shard is re-run with that
operation skipped (cases are deterministic) until it completes, and every death is added to the
final report as a violation `unsafe_after_panic@<operation>:<callback>`.

Heap corruption caused by one case can surface as an abort many cases later. To keep the
attribution honest the shard runs in two phases, each in its own processes: phase A only the
operations that have a recorded known finding (known_findings.json), phase B all the others.
A death in phase B therefore cannot be a delayed effect of a known finding.
usage: run_faults.py <out.json> <binary> faults [args...]   (without --skip/--only/--out)
"""
import json, os, re, subprocess, sys

out = sys.argv[1]
argv = sys.argv[2:]
ROOT = os.path.dirname(os.path.dirname(os.path.abspath(__file__)))
known = json.load(open(os.path.join(ROOT, "known_findings.json")))["findings"]
known_ops = sorted({m.group(1) for k in known if k["property"] == "C17" and k["status"] == "known" for m in [re.match(r"unsafe_after_panic@(.*):\w+$", k["signature"])] if m})


def load_report(path):
    """The report of a process in which a known finding caused memory corruption can itself be
    garbage (invalid UTF-8 / JSON): None in that case."""
    try:
        with open(path, "rb") as f:
            return json.loads(f.read().decode("utf-8", "replace"))
    except Exception:
        return None


def run_phase(extra, base_skip, label):
    skip, deaths, rep = list(base_skip), [], None
    for attempt in range(24):
        if os.path.exists(out):
            os.remove(out)
        cmd = argv + ["--out", out, "--skip", ";".join(skip)] + extra
        p = subprocess.run(cmd, stdout=subprocess.PIPE, stderr=subprocess.PIPE)
        err = p.stderr.decode("utf-8", "replace")
        if p.returncode == 0:
            rep = load_report(out)
            if rep is not None:
                break
        cases = [l for l in err.splitlines() if l.startswith("CASE ")]
        if not cases:
            sys.stderr.write(err[-3000:])
            sys.exit(3)
        last = cases[-1]
        m = re.search(r"name=\[(.*?)\]", last)
        name = m.group(1) if m else "?"
        after = err[err.rfind(last):]
        # the crash may be a delayed effect of an earlier case of the same phase (heap corruption
        # detected by a later malloc): fall back to the last fuse that fired at all
        fm = re.findall(r"FUSE cb=(\w+)", after) or re.findall(r"FUSE cb=(\w+)", err)
        cb = fm[-1] if fm else "none"
        tail = [l for l in err.splitlines() if not l.startswith(("CASE ", "FUSE "))][-8:]
        what = f"process_died: the workload process died (rc={p.returncode})" if p.returncode != 0 else "report_corrupted: the workload process finished but its report is not valid UTF-8 / JSON (memory corruption)"
        deaths.append(dict(prop="C17", sig=f"unsafe_after_panic@{name}:{cb}", detail=f"{what} in or after fault case ({label}): {last}\n" + "\n".join(tail), op=last, op_index=0))
        if name in skip:
            sys.stderr.write("death repeats for a skipped op: " + last + "\n")
            sys.exit(3)
        skip.append(name)
    if rep is None:
        sys.stderr.write("too many deaths\n")
        sys.exit(3)
    return rep, deaths, skip


def merge(rep, other):
    for k, v in other.items():
        if isinstance(v, bool):
            continue
        if isinstance(v, (int, float)) and isinstance(rep.get(k, 0), (int, float)):
            rep[k] = rep.get(k, 0) + v
        elif isinstance(v, dict):
            d = rep.setdefault(k, {})
            if isinstance(d, dict):
                for kk, vv in v.items():
                    d[kk] = d.get(kk, 0) + vv if isinstance(vv, (int, float)) and isinstance(d.get(kk, 0), (int, float)) else vv
        elif isinstance(v, list) and k.endswith("_set"):
            rep[k] = sorted(set(rep.get(k, [])) | set(x for x in v if isinstance(x, str)))


# phase A: every operation with a known finding in processes of its own, so that whatever its
# undefined behaviour does (crash, garbage report) is attributed to that operation only
viol_a, deaths_a_n = [], 0
rep_total = None
for op in known_ops:
    rep_a, deaths_a, _ = run_phase(["--only", op], [o for o in known_ops if o != op], f"phase A, only {op}")
    # the process exercised a single operation: everything it reports belongs to that operation
    for v in deaths_a + [v for v in rep_a.get("violations", []) if isinstance(v, dict)]:
        if isinstance(v.get("sig"), str) and v["sig"].startswith("unsafe_after_panic@") and f"@{op}:" not in v["sig"]:
            v = dict(v, sig=re.sub(r"@.*?:", f"@{op}:", v["sig"], count=1))
        viol_a.append(v)
    deaths_a_n += len(deaths_a)
    rep_a = dict(rep_a)
    rep_a.pop("violations", None)
    rep_a.pop("samples", None)
    if rep_total is None:
        rep_total = {}
    merge(rep_total, rep_a)
# phase B: all other operations; a death here cannot be a delayed effect of a known finding
rep_b, deaths_b, skip_b = run_phase([], known_ops, "phase B")
rep = dict(rep_b)
merge(rep, rep_total or {})
rep["violations"] = viol_a + deaths_b + rep_b.get("violations", [])
rep["process_deaths"] = deaths_a_n + len(deaths_b)
rep["process_deaths_outside_known_ops"] = len(deaths_b)
rep["skipped_after_death_set"] = sorted(set(skip_b) - set(known_ops))
json.dump(rep, open(out, "w"))
