#!/usr/bin/env python3
"""Run one `faults` shard to completion.

A fault case can kill the process (UB check abort, allocator abort): that is itself a C17
observation. The last flushed `CASE` line names the operation; the shard is re-run with that
operation skipped (cases are deterministic) until it completes, and every death is added to the
final report as a violation `process_died@<operation>`.
usage: run_faults.py <out.json> <binary...> -- (the binary's args, without --skip/--out)
"""
import json, re, subprocess, sys

out = sys.argv[1]
argv = sys.argv[2:]
skip, deaths = [], []
rep = None
for attempt in range(24):
    cmd = argv + ["--out", out, "--skip", ";".join(skip)]
    p = subprocess.run(cmd, stdout=subprocess.PIPE, stderr=subprocess.PIPE)
    err = p.stderr.decode("utf-8", "replace")
    if p.returncode == 0:
        rep = json.load(open(out))
        break
    cases = [l for l in err.splitlines() if l.startswith("CASE ")]
    if not cases:
        sys.stderr.write(err[-3000:])
        sys.exit(3)
    last = cases[-1]
    m = re.search(r"name=\[(.*?)\]", last)
    name = m.group(1) if m else "?"
    after = err[err.rfind(last):]
    # the crash may be a delayed effect of the previous case of the same op (heap corruption
    # detected by the next malloc): fall back to the last fuse that fired at all
    fm = re.findall(r"FUSE cb=(\w+)", after) or re.findall(r"FUSE cb=(\w+)", err)
    cb = fm[-1] if fm else "none"
    tail = [l for l in err.splitlines() if not l.startswith(("CASE ", "FUSE "))][-8:]
    deaths.append(dict(prop="C17", sig=f"unsafe_after_panic@{name}:{cb}", detail=f"process_died: the workload process died (rc={p.returncode}) in or after fault case: {last}\n" + "\n".join(tail), op=last, op_index=0))
    if name in skip:
        sys.stderr.write("death repeats for a skipped op: " + last + "\n")
        sys.exit(3)
    skip.append(name)
if rep is None:
    sys.stderr.write("too many deaths\n")
    sys.exit(3)
rep["violations"] = deaths + rep.get("violations", [])
rep["process_deaths"] = len(deaths)
rep["skipped_after_death_set"] = skip
json.dump(rep, open(out, "w"))
