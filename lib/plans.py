"""Per-property plans for ./check: what to build, which workloads to run, how to aggregate."""
import json
import os
import re
import subprocess
import time

ROOT = os.path.dirname(os.path.dirname(os.path.abspath(__file__)))
# VERIF_REPO_OVERRIDE=<dir>: build the monitors against another checkout of brood (used by
# mutants/selftest.py for scratch worktrees with a seeded change) instead of /repo. Uses cargo's
# `paths` override and a separate target directory; never used by the registered commands.
OVERRIDE = os.environ.get("VERIF_REPO_OVERRIDE")
TARGET = os.path.join(ROOT, "target") if not OVERRIDE else os.environ.get("VERIF_TARGET_DIR", os.path.join(ROOT, "target-" + os.path.basename(OVERRIDE.rstrip("/"))))
MIRI_TARGET = os.path.join(TARGET, "miri")
REPLAYS = os.path.join(ROOT, "replays") if not OVERRIDE else os.path.join(TARGET, "replays")
EVIDENCE = os.path.join(ROOT, "evidence") if not OVERRIDE else os.path.join(TARGET, "evidence")
NO_MIRI = bool(os.environ.get("VERIF_NO_MIRI"))
CARGO_CONFIG = ["--config", 'paths=["%s"]' % OVERRIDE] if OVERRIDE else []
MIRIFLAGS = "-Zmiri-tree-borrows -Zmiri-disable-isolation"
RIG_PKG = {"r5": "rig_r5", "r9": "rig_r9", "r1": "rig_misc", "r0": "rig_misc", "r3": "rig_misc"}


class Ctx:
    def __init__(self, prop, tier, seed, root, log, ncpu):
        self.prop, self.tier, self.seed, self.root, self.log, self.ncpu = prop, tier, seed, root, log, ncpu
        self.scratch = os.path.join(TARGET, "run", f"{prop}-{tier}-{os.getpid()}")
        os.makedirs(self.scratch, exist_ok=True)
        # keep only the two most recent scratch directories of this (property, tier)
        import shutil
        rd = os.path.join(TARGET, "run")
        old = sorted((d for d in os.listdir(rd) if d.startswith(f"{prop}-{tier}-") and os.path.join(rd, d) != self.scratch), key=lambda d: os.path.getmtime(os.path.join(rd, d)))
        for d in old[:-2]:
            shutil.rmtree(os.path.join(rd, d), ignore_errors=True)


def base_env():
    env = dict(os.environ)
    env["CARGO_NET_OFFLINE"] = "true"
    env.pop("RUSTFLAGS", None)  # .cargo/config.toml carries --cfg brood_verif
    return env


def cargo_build(packages, log, release=True, extra_env=None, toolchain=None, target_dir=None, bins=None):
    argv = ["cargo"]
    if toolchain:
        argv.append("+" + toolchain)
    argv += ["build", "--offline"] + CARGO_CONFIG
    if release:
        argv.append("--release")
    for p in packages:
        argv += ["-p", p]
    for b in bins or []:
        argv += ["--bin", b]
    env = base_env()
    env["CARGO_TARGET_DIR"] = target_dir or TARGET
    if extra_env:
        env.update(extra_env)
    t0 = time.time()
    p = subprocess.run(argv, cwd=ROOT, env=env, stdout=subprocess.PIPE, stderr=subprocess.PIPE)
    log(f"[build] {' '.join(argv)} -> rc={p.returncode} in {time.time() - t0:.1f}s")
    if p.returncode != 0:
        err = p.stderr.decode("utf-8", "replace")
        errs = [l for l in err.splitlines() if l.startswith("error")]
        return False, "; ".join(errs[:5]) or err[-400:]
    return True, "ok"


def miri_warm(pkg, bin_, log):
    """Build the Miri artefacts for one rig binary (runs its `info` command)."""
    env = base_env()
    env["MIRIFLAGS"] = MIRIFLAGS
    env["CARGO_TARGET_DIR"] = MIRI_TARGET
    argv = ["cargo", "+nightly", "miri", "run", "--offline", "-q"] + CARGO_CONFIG + ["-p", pkg, "--bin", bin_, "--", "info"]
    t0 = time.time()
    p = subprocess.run(argv, cwd=ROOT, env=env, stdout=subprocess.PIPE, stderr=subprocess.PIPE)
    log(f"[build] miri {pkg}/{bin_} -> rc={p.returncode} in {time.time() - t0:.1f}s")
    if p.returncode != 0:
        err = p.stderr.decode("utf-8", "replace")
        errs = [l for l in err.splitlines() if l.startswith("error")]
        return False, "; ".join(errs[:5]) or err[-400:]
    return True, "ok"


def build_all(tier, log):
    """MANIFEST.setup_cmd: build every monitor (native release, Miri artefacts, C14 rlibs)."""
    ok, msg = cargo_build(["rig_r5", "rig_r9", "rig_misc", "ctor", "schedprogs"], log)
    if not ok:
        return ok, msg
    ok, msg = cargo_build(["c14base"], log, release=False)
    if not ok:
        return ok, msg
    for pkg, b in (("rig_r5", "r5"), ("rig_r9", "r9"), ("rig_misc", "r1")):
        ok, msg = miri_warm(pkg, b, log)
        if not ok:
            return ok, msg
    # Miri artefacts of the C14 runner's dependencies (brood, rayon)
    env = base_env()
    env["MIRIFLAGS"] = MIRIFLAGS
    env["CARGO_TARGET_DIR"] = MIRI_TARGET
    p = subprocess.run(["cargo", "+nightly", "miri", "run", "--offline", "-q"] + CARGO_CONFIG + ["-p", "c14run"], cwd=ROOT, env=env, stdout=subprocess.PIPE, stderr=subprocess.PIPE)
    log(f"[build] miri c14run -> rc={p.returncode}")
    if p.returncode != 0:
        return False, p.stderr.decode("utf-8", "replace")[-400:]
    return True, "built"


# ---------------------------------------------------------------------------------------------
# Miri output classification

MIRI_UB = re.compile(r"error: Undefined Behavior: (.*)")
MIRI_LEAK = re.compile(r"error: memory leaked")
BORROW_WORDS = ("Tree Borrows", "tree borrows", "reborrow", "protect", "is forbidden", "Stacked Borrows", "retag", "tag <")


def classify_miri(stderr):
    """-> (kind, first_line) where kind in none|ub|borrow|leak|race|other_error"""
    m = MIRI_UB.search(stderr)
    if m:
        line = m.group(1)
        if "Data race" in line or "data race" in line:
            # A race in which one side is a *retag* (creation of a reference, e.g. the `&mut World`
            # every schedule task forms) is an aliasing-model artefact, not two conflicting
            # accesses to data: logged as a borrow-model note (DESIGN.md 4.6 / 11.3).
            if "retag" in line:
                return "borrow", line
            return "race", line
        if any(w in line for w in BORROW_WORDS):
            return "borrow", line
        return "ub", line
    if MIRI_LEAK.search(stderr):
        return "leak", "memory leaked"
    if "unsafe precondition" in stderr:
        return "ub", [l for l in stderr.splitlines() if "unsafe precondition" in l][0]
    if re.search(r"^error", stderr, re.M):
        return "other_error", [l for l in stderr.splitlines() if l.startswith("error")][0]
    return "none", ""


# ---------------------------------------------------------------------------------------------
# Sequential-history plans

SUM_KEYS = None  # all numeric stats are summed except the MAX_KEYS
MAX_KEYS = {"max_generation", "max_archetypes", "max_free", "values_born", "values_died"}


def merge_stats(acc, st):
    for k, v in st.items():
        if isinstance(v, bool):
            continue
        if isinstance(v, (int, float)):
            if k in MAX_KEYS:
                acc[k] = max(acc.get(k, 0), v)
            else:
                acc[k] = acc.get(k, 0) + v
        elif isinstance(v, dict):
            d = acc.setdefault(k, {})
            for kk, vv in v.items():
                d[kk] = d.get(kk, 0) + vv
        elif isinstance(v, list):
            s = acc.setdefault(k, set())
            for x in v:
                s.add(x if not isinstance(x, list) else tuple(x))


def jsonable(x):
    if isinstance(x, set):
        return sorted(x, key=lambda v: (str(type(v)), v))
    if isinstance(x, dict):
        return {k: jsonable(v) for k, v in x.items()}
    return x


class SeqPlan:
    level = "exploration"

    def __init__(self, prop, profiles, rigs, quick, thorough, miri_quick=0, miri_thorough=0, floor_ops=20000, what="", miri_profile=None, asan_thorough=False, miri_ops=40, miri_flags="", tsan_thorough=False, extra_deser=0):
        self.prop = prop
        self.profiles = profiles
        self.rigs = rigs
        self.quick = quick  # (shards_per_rig, histories, ops)
        self.thorough = thorough
        self.miri_quick = miri_quick
        self.miri_thorough = miri_thorough
        self.floor_ops = floor_ops
        self.what = what
        self.miri_profile = miri_profile or profiles[0]
        self.asan_thorough = asan_thorough
        self.miri_ops = miri_ops
        self.miri_flags = miri_flags
        self.tsan_thorough = tsan_thorough
        self.extra_deser = extra_deser
        self.assumptions = [
            "the reference model in bvh/src/model.rs (a BTreeMap from identifier to component values) is the intended semantics of World",
            "payload components identify themselves (type tag, instance id, checksum); values written are unique per world so a read identifies the write it saw",
            "generated typed dispatch (gen/gen_rig.py) only reaches the shapes/queries it enumerates; evidence lists them",
            "held on the executions produced, not verified for all histories",
        ]

    def build(self, ctx):
        pkgs = sorted({RIG_PKG[r] for r in self.rigs})
        self.bin_dir = os.path.join(TARGET, "release")
        if ctx.tier == "thorough" and not os.environ.get("VERIF_THOROUGH_DEFAULT_FAMILY"):
            # thorough: a query / system family regenerated from VERIF_SEED (new types => own target dir)
            tdir = os.path.join(TARGET, "thorough")
            ok, msg = cargo_build(pkgs, ctx.log, target_dir=tdir, extra_env={"BVH_GEN_SEED": str(1000 + ctx.seed)})
            if ok:
                self.bin_dir = os.path.join(tdir, "release")
                self.family_seed = 1000 + ctx.seed
            else:
                ctx.log(f"[build] regenerated family (seed {1000 + ctx.seed}) does not build: {msg}; falling back to the default family")
        ok, msg = cargo_build(pkgs, ctx.log)
        if not ok:
            return ok, msg
        n_miri = 0 if NO_MIRI else (self.miri_quick if ctx.tier == "quick" else self.miri_thorough)
        if n_miri:
            for r in self.miri_rigs():
                ok, msg = miri_warm(RIG_PKG[r], r, ctx.log)
                if not ok:
                    return ok, "miri: " + msg
        if ctx.tier == "thorough" and self.tsan_thorough:
            ok, msg = tsan_build(["rig_r5"], ctx.log)
            self.tsan_ok = ok
            if not ok:
                ctx.log(f"[build] TSan build failed ({msg}); TSan shards skipped")
        if ctx.tier == "thorough" and self.asan_thorough:
            ok, msg = asan_build(pkgs, ctx.log)
            if not ok:
                ctx.log(f"[build] ASan build failed ({msg}); ASan shards skipped")
                self.asan_ok = False
            else:
                self.asan_ok = True
        return True, "ok"

    def miri_rigs(self):
        return [r for r in self.rigs if r in ("r5", "r9")] or self.rigs[:1]

    def jobs(self, ctx):
        shards, hist, ops = self.quick if ctx.tier == "quick" else self.thorough
        jobs = []
        n = 0
        for rig in self.rigs:
            nsh = shards if rig in ("r5", "r9") else max(1, shards // 4)
            for s in range(nsh):
                prof = self.profiles[(s + n) % len(self.profiles)]
                out = os.path.join(ctx.scratch, f"seq-{rig}-{s}.json")
                jobs.append(
                    dict(
                        name=f"seq-{rig}-{prof}-{s}",
                        kind="native",
                        rig=rig,
                        argv=[os.path.join(getattr(self, "bin_dir", os.path.join(TARGET, "release")), rig), "seq", "--profile", prof, "--seed", str(ctx.seed * 1000 + n), "--histories", str(hist), "--ops", str(ops), "--out", out],
                        out=out,
                        timeout=1500 if ctx.tier == "quick" else 7200,
                    )
                )
                n += 1
        for s in range(self.extra_deser):
            rig = ["r5", "r9", "r1"][s % 3]
            out = os.path.join(ctx.scratch, f"deser-{rig}-{s}.json")
            jobs.append(dict(name=f"deser-{rig}-{s}", kind="native", rig=rig,
                             argv=[os.path.join(TARGET, "release", rig), "deser", "--seed", str(ctx.seed * 1013 + s), "--worlds", "14" if ctx.tier == "quick" else "100", "--mutants", "60", "--exhaustive", "2", "--followup", "20", "--out", out],
                             out=out, timeout=1800))
        n_miri = 0 if NO_MIRI else (self.miri_quick if ctx.tier == "quick" else self.miri_thorough)
        mrigs = self.miri_rigs()
        for s in range(n_miri):
            rig = mrigs[s % len(mrigs)]
            out = os.path.join(ctx.scratch, f"miri-{rig}-{s}.json")
            mops = self.miri_ops if ctx.tier == "quick" else self.miri_ops * 2
            jobs.append(
                dict(
                    name=f"miri-{rig}-{s}",
                    kind="miri",
                    rig=rig,
                    argv=["cargo", "+nightly", "miri", "run", "--offline", "-q"] + CARGO_CONFIG + ["-p", RIG_PKG[rig], "--bin", rig, "--", "seq", "--profile", self.miri_profile, "--seed", str(ctx.seed * 7919 + s), "--histories", "1",
                          "--ops", str(mops), "--max-entities", "10", "--check-every", "4", "--shrink", "0", "--out", out],
                    env={"MIRIFLAGS": (MIRIFLAGS + " " + self.miri_flags).strip(), "CARGO_TARGET_DIR": MIRI_TARGET},
                    out=out,
                    timeout=1500 if ctx.tier == "quick" else 5400,
                )
            )
        if ctx.tier == "thorough" and self.tsan_thorough and getattr(self, "tsan_ok", False):
            for s in range(8):
                out = os.path.join(ctx.scratch, f"tsan-r5-{s}.json")
                jobs.append(
                    dict(
                        name=f"tsan-r5-{s}",
                        kind="asan",
                        rig="r5",
                        argv=[os.path.join(TARGET, "tsan", "x86_64-unknown-linux-gnu", "release", "r5"), "seq", "--profile", self.miri_profile, "--seed", str(ctx.seed * 15485863 + s), "--histories", "60", "--ops", "250", "--shrink", "0", "--out", out],
                        env={"TSAN_OPTIONS": "halt_on_error=1 exitcode=77"},
                        out=out,
                        timeout=5400,
                    )
                )
        if ctx.tier == "thorough" and self.asan_thorough and getattr(self, "asan_ok", False):
            for s in range(8):
                rig = mrigs[s % len(mrigs)]
                out = os.path.join(ctx.scratch, f"asan-{rig}-{s}.json")
                jobs.append(
                    dict(
                        name=f"asan-{rig}-{s}",
                        kind="asan",
                        rig=rig,
                        argv=[os.path.join(TARGET, "asan", "x86_64-unknown-linux-gnu", "release", rig), "seq", "--profile", self.miri_profile, "--seed", str(ctx.seed * 104729 + s), "--histories", "200", "--ops", "400", "--shrink", "0", "--out", out],
                        env={"ASAN_OPTIONS": "detect_leaks=1:halt_on_error=1:abort_on_error=0:exitcode=77", "LSAN_OPTIONS": "exitcode=78"},
                        out=out,
                        timeout=5400,
                    )
                )
        return jobs

    def aggregate(self, ctx, results, known):
        prop = self.prop
        acc = {}
        viols, notes, samples = [], [], []
        replay_path = None
        inconclusive = []
        tools = {"native": dict(processes=0, ops=0), "miri": dict(processes=0, ops=0, reports=0, borrow_notes=0), "asan": dict(processes=0, ops=0, reports=0)}
        for r in results:
            job = r["job"]
            kind = job["kind"]
            tools[kind]["processes"] += 1
            rep = r["report"]
            if rep is not None and "stats" not in rep:
                # a hostile-input shard (deser monitor) attached to this plan
                acc["failed_deserializations_observed"] = acc.get("failed_deserializations_observed", 0) + rep.get("outcome_err", 0)
                acc["deser_inputs"] = acc.get("deser_inputs", 0) + rep.get("cases", 0)
                rep = dict(rep)
                rep["stats"] = {}
            if rep is not None:
                merge_stats(acc, rep["stats"])
                tools[kind]["ops"] += rep["stats"].get("ops", 0)
                if len(samples) < 3:
                    samples.extend(rep.get("samples", [])[:1])
                for v in rep["violations"]:
                    v = dict(v)
                    v["job"] = job["name"]
                    if v["prop"] == prop:
                        viols.append(v)
                        if replay_path is None and rep.get("replay"):
                            replay_path = self.save_replay(ctx, job, rep["replay"])
                    elif v["prop"] == "HARNESS":
                        inconclusive.append(f"{job['name']}: harness inconsistency {v['sig']}: {v['detail'][:200]}")
                    else:
                        notes.append(f"{v['prop']} {v['sig']} seen in {job['name']} (decided by ./check {v['prop']}): {v['detail'][:160]}")
            # process-level outcomes
            rc = r["rc"]
            if kind == "miri":
                mk, line = classify_miri(r["stderr"])
                if mk in ("ub", "leak", "race"):
                    tools["miri"]["reports"] += 1
                    owner = "C05" if mk in ("ub", "race") else "C05"
                    v = dict(prop=owner, sig=f"miri_{mk}", detail=f"Miri: {line}\n" + tail(r["stderr"], 30), op="", op_index=-1, job=job["name"])
                    if owner == prop or prop in ("C03", "C06", "C10", "C11", "C01", "C04"):
                        # a memory error reached by this property's workload is charged to the property being driven
                        v["prop"] = prop
                        viols.append(v)
                        if replay_path is None:
                            replay_path = self.save_cmd_replay(ctx, job, r)
                    else:
                        notes.append(f"C05 miri_{mk} in {job['name']}: {line}")
                elif mk == "borrow":
                    tools["miri"]["borrow_notes"] += 1
                    notes.append(f"borrow-model note (not a violation of {prop}) in {job['name']}: {line}")
                elif mk == "other_error" or (rep is None and rc != 0):
                    inconclusive.append(f"{job['name']}: miri run failed rc={rc}: {line or tail(r['stderr'], 5)}")
            elif rep is None:
                if rc == "timeout":
                    inconclusive.append(f"{job['name']}: watchdog timeout")
                elif isinstance(rc, int) and (rc < 0 or rc in (77, 78, 134, 139)):
                    last = [l for l in r["stderr"].splitlines() if l.startswith("HISTORY")]
                    detail = f"workload process died (rc={rc}) during {last[-1] if last else '?'}\n" + tail(r["stderr"], 25)
                    sig = "process_died"
                    if kind == "asan":
                        tools["asan"]["reports"] += 1
                        sig = "sanitizer_report"
                    viols.append(dict(prop=prop, sig=sig, detail=detail, op="", op_index=-1, job=job["name"]))
                    if replay_path is None:
                        replay_path = self.save_cmd_replay(ctx, job, r)
                else:
                    inconclusive.append(f"{job['name']}: no report, rc={rc}: {tail(r['stderr'], 5)}")
        # known findings
        known_hit = []
        fresh = []
        for v in viols:
            k = match_known(known, prop, v["sig"])
            if k:
                if k["what"] not in known_hit:
                    known_hit.append(k["what"])
            else:
                fresh.append(v)
        sigs = acc.get("signatures", set())
        coverage = dict(
            evaluations=int(acc.get("histories", 0)),
            distinct_nontrivial=len(sigs),
            rule="a case is one generated history (sequence of public-API ops on a pool of <=3 worlds, every oracle after every op); non-trivial = contains at least one removal, one slot reuse and one shape change; "
            "distinct = distinct signature (number of op kinds, max archetypes, log-bucketed max free-list length / slot reuses / row moves)",
            samples=samples or ["<none>"],
            what=self.what,
            ops=int(acc.get("ops", 0)),
            counters=jsonable({k: v for k, v in acc.items() if k not in ("signatures",)}),
            tools=tools,
            rigs=self.rigs,
            profiles=self.profiles,
            query_family_seed=getattr(self, "family_seed", 1),
        )
        verdict = "held"
        reason = ""
        if fresh:
            verdict = "violated"
            if replay_path is None:
                replay_path = self.save_note_replay(ctx, fresh[0])
        elif inconclusive:
            verdict = "inconclusive"
            reason = "; ".join(inconclusive[:3])
        elif coverage["ops"] < (self.floor_ops if ctx.tier == "quick" else self.floor_ops * 4) or coverage["distinct_nontrivial"] < 2:
            verdict = "inconclusive"
            reason = f"too little observed: ops={coverage['ops']} distinct={coverage['distinct_nontrivial']}"
        return dict(verdict=verdict, reason=reason, violations=fresh, known=known_hit, notes=dedupe(notes), coverage=coverage, replay=replay_path)

    def save_replay(self, ctx, job, replay):
        os.makedirs(REPLAYS, exist_ok=True)
        path = os.path.join(ROOT, "replays", f"{self.prop}-{job['rig']}-{replay.get('seed', 0)}.json")
        replay = dict(replay)
        replay["kind"] = "seq"
        replay["cmd"] = job["argv"]
        with open(path, "w") as f:
            json.dump(replay, f)
        return path

    def save_cmd_replay(self, ctx, job, r):
        os.makedirs(REPLAYS, exist_ok=True)
        path = os.path.join(ROOT, "replays", f"{self.prop}-{job['name']}.json")
        with open(path, "w") as f:
            json.dump(dict(kind="cmd", cmd=job["argv"], env=job.get("env", {}), rc=str(r["rc"]), stderr_tail=tail(r["stderr"], 60)), f)
        return path

    def save_note_replay(self, ctx, v):
        os.makedirs(REPLAYS, exist_ok=True)
        path = os.path.join(ROOT, "replays", f"{self.prop}-note.json")
        with open(path, "w") as f:
            json.dump(dict(kind="note", violation=v), f)
        return path


def tsan_build(pkgs, log, bins=None):
    argv = ["cargo", "+nightly", "build", "--offline", "--release", "-Zbuild-std", "--target", "x86_64-unknown-linux-gnu"] + CARGO_CONFIG
    for p in pkgs:
        argv += ["-p", p]
    for b in bins or []:
        argv += ["--bin", b]
    e = base_env()
    e["RUSTFLAGS"] = "--cfg brood_verif --cfg bvh_notrack -Zsanitizer=thread"
    e["CARGO_TARGET_DIR"] = os.path.join(TARGET, "tsan")
    t0 = time.time()
    p = subprocess.run(argv, cwd=ROOT, env=e, stdout=subprocess.PIPE, stderr=subprocess.PIPE)
    log(f"[build] tsan {' '.join(pkgs)} -> rc={p.returncode} in {time.time() - t0:.1f}s")
    if p.returncode != 0:
        return False, p.stderr.decode("utf-8", "replace")[-400:]
    return True, "ok"


def asan_build(pkgs, log):
    env = {"RUSTFLAGS": "--cfg brood_verif --cfg bvh_notrack -Zsanitizer=address -Cforce-frame-pointers=yes"}
    argv = ["cargo", "+nightly", "build", "--offline", "--release", "--target", "x86_64-unknown-linux-gnu"] + CARGO_CONFIG
    for p in pkgs:
        argv += ["-p", p]
    e = base_env()
    e.update(env)
    e["CARGO_TARGET_DIR"] = os.path.join(TARGET, "asan")
    t0 = time.time()
    p = subprocess.run(argv, cwd=ROOT, env=e, stdout=subprocess.PIPE, stderr=subprocess.PIPE)
    log(f"[build] asan {' '.join(pkgs)} -> rc={p.returncode} in {time.time() - t0:.1f}s")
    if p.returncode != 0:
        return False, p.stderr.decode("utf-8", "replace")[-400:]
    return True, "ok"


def tail(s, n):
    return "\n".join(s.splitlines()[-n:])


def dedupe(xs):
    out, seen = [], set()
    for x in xs:
        k = " ".join(x.split()[:2])
        if k not in seen:
            seen.add(k)
            out.append(x)
    return out


def match_known(known, prop, sig):
    for k in known:
        if k["property"] == prop and k["status"] == "known" and k["signature"] == sig:
            return k
    return None


def do_replay(prop, path, log):
    with open(path) as f:
        rp = json.load(f)
    if rp.get("kind") == "seq":
        rig = rp["rig"].lower()
        ok, msg = cargo_build([RIG_PKG[rig]], log)
        if not ok:
            print(f"INCONCLUSIVE property={prop} reason=build failed: {msg}")
            return 2
        out = os.path.join(TARGET, "run", "replay-out.json")
        os.makedirs(os.path.dirname(out), exist_ok=True)
        p = subprocess.run([os.path.join(TARGET, "release", rig), "seq", "--replay", path, "--out", out], cwd=ROOT, env=base_env())
        if p.returncode != 0:
            print(f"VIOLATION property={prop} replay={path}")
            return 1
        rep = json.load(open(out))
        mine = [v for v in rep["violations"] if v["prop"] == prop]
        for v in rep["violations"]:
            log(f"[replay] {v['prop']} {v['sig']}: {v['detail'][:400]}")
        with open(os.path.join(ROOT, "known_findings.json")) as f:
            known = json.load(f)["findings"]
        fresh = [v for v in mine if not match_known(known, prop, v["sig"])]
        for k in {match_known(known, prop, v["sig"])["what"] for v in mine if match_known(known, prop, v["sig"])}:
            print(f"KNOWN-FINDING: property={prop} {k}")
        mine = fresh
        if mine:
            print(f"VIOLATION property={prop} replay={path}")
            return 1
        print(f"OK property={prop} replay={path} (no violation of {prop} on this tree)")
        return 0
    if rp.get("kind") == "cmd":
        env = base_env()
        env.update(rp.get("env", {}))
        p = subprocess.run(rp["cmd"], cwd=ROOT, env=env)
        if p.returncode != 0:
            print(f"VIOLATION property={prop} replay={path}")
            return 1
        print(f"OK property={prop} replay={path}")
        return 0
    print(f"INCONCLUSIVE property={prop} reason=replay kind {rp.get('kind')} is descriptive only")
    return 2


class ToolPlan:
    """Plan for monitors that emit {violations:[{prop,sig,detail}], samples:[...], <numeric counters>}."""
    level = "exploration"
    assumptions = []

    def __init__(self, prop, packages, what, rule, floor=1, level="exploration", exhaustive=False, assumptions=None, bins=None):
        self.prop, self.packages, self.what, self.rule, self.floor = prop, packages, what, rule, floor
        self.level = level
        self.exhaustive = exhaustive
        self.assumptions = assumptions or []
        self.bins = bins

    def build(self, ctx):
        return cargo_build(self.packages, ctx.log, bins=self.bins)

    def jobs(self, ctx):
        raise NotImplementedError

    def evaluations(self, acc):
        return int(acc.get("cases", 0))

    def distinct(self, acc):
        return int(acc.get("distinct", 0))

    def aggregate(self, ctx, results, known):
        prop = self.prop
        acc, viols, notes, samples, inconclusive = {}, [], [], [], []
        replay_path = None
        for r in results:
            job, rep, rc = r["job"], r["report"], r["rc"]
            if rep is None:
                if rc == "timeout":
                    inconclusive.append(f"{job['name']}: watchdog timeout")
                elif isinstance(rc, int) and (rc < 0 or rc in (77, 78, 134, 139)) and job.get("death_is_violation", True):
                    viols.append(dict(prop=prop, sig="process_died", detail=f"workload process died rc={rc}\n" + tail(r["stderr"], 25), job=job["name"]))
                    replay_path = replay_path or save_cmd_replay(prop, job, r)
                else:
                    inconclusive.append(f"{job['name']}: no report, rc={rc}: {tail(r['stderr'], 6)}")
                continue
            for k, v in rep.items():
                if isinstance(v, bool):
                    continue
                if isinstance(v, (int, float)):
                    acc[k] = acc.get(k, 0) + v
                elif isinstance(v, dict) and all(isinstance(x, (int, float)) for x in v.values()):
                    d = acc.setdefault(k, {})
                    for kk, vv in v.items():
                        d[kk] = d.get(kk, 0) + vv
                elif k.endswith("_set") and isinstance(v, list):
                    acc.setdefault(k, set()).update(v)
            samples.extend(rep.get("samples", [])[: max(0, 4 - len(samples))])
            for v in rep.get("violations", []):
                v = dict(v)
                v["job"] = job["name"]
                if v["prop"] == prop:
                    viols.append(v)
                    if replay_path is None:
                        replay_path = save_violation_replay(prop, job, v, rep)
                elif v["prop"] == "HARNESS":
                    inconclusive.append(f"{job['name']}: {v['sig']}: {v['detail'][:200]}")
                else:
                    notes.append(f"{v['prop']} {v['sig']} seen in {job['name']} (decided by ./check {v['prop']}): {v['detail'][:160]}")
            if job.get("kind") == "miri":
                mk, line = classify_miri(r["stderr"])
                acc.setdefault("miri", {"processes": 0, "reports": 0, "borrow_notes": 0})
                acc["miri"]["processes"] += 1
                if mk in ("ub", "leak", "race"):
                    acc["miri"]["reports"] += 1
                    viols.append(dict(prop=prop, sig=f"miri_{mk}", detail=f"Miri: {line}\n" + tail(r["stderr"], 30), job=job["name"]))
                    replay_path = replay_path or save_cmd_replay(prop, job, r)
                elif mk == "borrow":
                    acc["miri"]["borrow_notes"] += 1
                    notes.append(f"borrow-model note in {job['name']}: {line}")
        known_hit, fresh = [], []
        for v in viols:
            k = match_known(known, prop, v["sig"])
            if k:
                if k["what"] not in known_hit:
                    known_hit.append(k["what"])
            else:
                fresh.append(v)
        coverage = dict(
            evaluations=self.evaluations(acc),
            distinct_nontrivial=self.distinct(acc),
            rule=self.rule,
            samples=samples or ["<none>"],
            what=self.what,
            counters=jsonable(acc),
        )
        if self.exhaustive:
            coverage["exhaustive"] = True
        verdict, reason = "held", ""
        if fresh:
            verdict = "violated"
            replay_path = replay_path or save_violation_replay(prop, {"name": "note", "argv": []}, fresh[0], {})
        elif inconclusive:
            verdict, reason = "inconclusive", "; ".join(inconclusive[:3])
        elif coverage["evaluations"] < self.floor or coverage["distinct_nontrivial"] < 2:
            verdict, reason = "inconclusive", f"too little observed: evaluations={coverage['evaluations']} distinct={coverage['distinct_nontrivial']}"
        return dict(verdict=verdict, reason=reason, violations=fresh, known=known_hit, notes=dedupe(notes), coverage=coverage, replay=replay_path)


def save_cmd_replay(prop, job, r):
    os.makedirs(REPLAYS, exist_ok=True)
    path = os.path.join(ROOT, "replays", f"{prop}-{job['name']}.json")
    with open(path, "w") as f:
        json.dump(dict(kind="cmd", cmd=job["argv"], env=job.get("env", {}), rc=str(r["rc"]), stderr_tail=tail(r["stderr"], 60)), f)
    return path


def save_violation_replay(prop, job, v, rep):
    os.makedirs(REPLAYS, exist_ok=True)
    path = os.path.join(ROOT, "replays", f"{prop}-{job['name']}.json")
    with open(path, "w") as f:
        json.dump(dict(kind="cmd" if job.get("argv") else "note", cmd=job.get("argv", []), env=job.get("env", {}), violation=v, replay=rep.get("replay")), f)
    return path


class DeserPlan(ToolPlan):
    def __init__(self, prop, **kw):
        super().__init__(prop, ["rig_r5", "rig_r9", "rig_misc"], **kw)

    def build(self, ctx):
        ok, msg = cargo_build(self.packages, ctx.log)
        if ok and not NO_MIRI:
            ok, msg = miri_warm("rig_r5", "r5", ctx.log)
        return ok, msg

    def distinct(self, acc):
        return len(acc.get("sigs_set", ()))

    def jobs(self, ctx):
        quick = ctx.tier == "quick"
        jobs = []
        shards = [("r5", 5), ("r9", 5), ("r1", 2)] if quick else [("r5", 8), ("r9", 8), ("r1", 4), ("r0", 1)]
        n = 0
        for rig, cnt in shards:
            for s in range(cnt):
                out = os.path.join(ctx.scratch, f"deser-{rig}-{s}.json")
                worlds, mutants, exh = (14, 60, 2) if quick else (120, 120, 6)
                jobs.append(dict(name=f"deser-{rig}-{s}", kind="native", rig=rig,
                                 argv=[os.path.join(TARGET, "release", rig), "deser", "--seed", str(ctx.seed * 1009 + n), "--worlds", str(worlds), "--mutants", str(mutants), "--exhaustive", str(exh), "--followup", "30", "--out", out],
                                 out=out, timeout=1800 if quick else 7200))
                n += 1
        if not NO_MIRI:
            for s in range(2 if quick else 12):
                out = os.path.join(ctx.scratch, f"deser-miri-{s}.json")
                jobs.append(dict(name=f"deser-miri-{s}", kind="miri", rig="r5",
                                 argv=["cargo", "+nightly", "miri", "run", "--offline", "-q"] + CARGO_CONFIG + ["-p", "rig_r5", "--bin", "r5", "--", "deser", "--seed", str(ctx.seed * 31 + s), "--worlds", "2", "--mutants", "6", "--exhaustive", "0", "--followup", "2", "--out", out],
                                 env={"MIRIFLAGS": MIRIFLAGS + " -Zmiri-ignore-leaks", "CARGO_TARGET_DIR": MIRI_TARGET}, out=out, timeout=1800 if quick else 5400))
        return jobs


class FaultsPlan(ToolPlan):
    def __init__(self, prop, **kw):
        super().__init__(prop, ["rig_r5", "rig_r9", "rig_misc", "schedprogs"], **kw)

    def build(self, ctx):
        ok, msg = cargo_build(self.packages, ctx.log)
        if ok and not NO_MIRI:
            ok, msg = miri_warm("rig_r5", "r5", ctx.log)
        return ok, msg

    def evaluations(self, acc):
        return int(acc.get("cases", 0))

    def distinct(self, acc):
        return len(acc.get("sigs_set", ()))

    def jobs(self, ctx):
        quick = ctx.tier == "quick"
        jobs = []
        shards = [("r5", 5), ("r9", 5), ("r1", 2)] if quick else [("r5", 12), ("r9", 12), ("r1", 6)]
        n = 0
        for rig, cnt in shards:
            for s in range(cnt):
                out = os.path.join(ctx.scratch, f"faults-{rig}-{s}.json")
                jobs.append(dict(name=f"faults-{rig}-{s}", kind="native", rig=rig,
                                 argv=["python3", os.path.join(ROOT, "lib", "run_faults.py"), out, os.path.join(TARGET, "release", rig), "faults", "--seed", str(ctx.seed * 2003 + n), "--worlds", "3" if quick else "10", "--max-k", "64" if quick else "400"],
                                 out=out, timeout=1800 if quick else 7200, death_is_violation=False))
                n += 1
        # panics inside the tasks of generated schedules (run_schedule on a pool and under the join hook)
        bindir = os.path.join(ROOT, "schedprogs", "src", "bin")
        for i, p in enumerate(sorted(f[:-3] for f in os.listdir(bindir) if f.endswith(".rs") and not f.startswith("sched_t"))):
            out = os.path.join(ctx.scratch, f"{p}-faults.json")
            jobs.append(dict(name=f"{p}-faults", kind="native", argv=[os.path.join(TARGET, "release", p), "faults", "--seed", str(ctx.seed * 43 + i), "--worlds", "8" if quick else "40", "--max-k", "40" if quick else "200", "--out", out],
                             out=out, timeout=1800 if quick else 7200))
        if not NO_MIRI:
            for s in range(3 if quick else 12):
                out = os.path.join(ctx.scratch, f"faults-miri-{s}.json")
                skip = ";".join(["World::remove", "World::clear"] + [f"World::clone_from(dst={d})" for d in ("empty", "other", "smaller", "larger")])
                jobs.append(dict(name=f"faults-miri-{s}", kind="miri", rig="r5",
                                 argv=["cargo", "+nightly", "miri", "run", "--offline", "-q"] + CARGO_CONFIG + ["-p", "rig_r5", "--bin", "r5", "--", "faults", "--seed", str(ctx.seed * 37 + s), "--worlds", "1", "--max-k", "2", "--op-limit", "6", "--scene-ops", "7", "--skip", skip, "--out", out],
                                 env={"MIRIFLAGS": MIRIFLAGS + " -Zmiri-ignore-leaks", "CARGO_TARGET_DIR": MIRI_TARGET}, out=out, timeout=1800 if quick else 5400))
        return jobs


class SchedPlan(ToolPlan):
    """C07 / C08 / C12 share the generated schedule programs; each check filters its own property."""

    def __init__(self, prop, **kw):
        super().__init__(prop, ["schedprogs"], **kw)

    def programs(self, ctx):
        bindir = os.path.join(ROOT, "schedprogs", "src", "bin")
        if ctx.tier == "thorough":
            # additional programs from VERIF_SEED (not committed; see .gitignore)
            subprocess.run(["python3", os.path.join(ROOT, "gen", "gen_sched.py"), str(1000 + ctx.seed), "24", bindir, "sched_t"], check=True)
        else:
            for f in os.listdir(bindir):
                if f.startswith("sched_t"):
                    os.remove(os.path.join(bindir, f))
        return sorted(f[:-3] for f in os.listdir(bindir) if f.endswith(".rs"))

    def build(self, ctx):
        self.progs = self.programs(ctx)
        ok, msg = cargo_build(["schedprogs"], ctx.log)
        self.tsan_progs = []
        if ok and ctx.tier == "thorough" and self.prop == "C08":
            committed = [p for p in self.progs if not p.startswith("sched_t")]
            tok, tmsg = tsan_build(["schedprogs"], ctx.log, bins=committed)
            if tok:
                self.tsan_progs = committed
            else:
                ctx.log(f"[build] TSan build of schedule programs failed ({tmsg}); TSan shards skipped")
        return ok, msg

    def evaluations(self, acc):
        return int(acc.get("cases", 0))

    def distinct(self, acc):
        return len(acc.get("dag_shapes_set", ())) + len(acc.get("start_orders_set", ()))

    def jobs(self, ctx):
        quick = ctx.tier == "quick"
        jobs = []
        for i, p in enumerate(self.progs):
            out = os.path.join(ctx.scratch, f"{p}.json")
            jobs.append(dict(name=p, kind="native", argv=[os.path.join(TARGET, "release", p), "run", "--seed", str(ctx.seed * 31 + i), "--worlds", "30" if quick else "300", "--out", out], out=out, timeout=900 if quick else 5400))
            if not quick:
                out2 = os.path.join(ctx.scratch, f"{p}-pools.json")
                jobs.append(dict(name=p + "-pools", kind="native", argv=[os.path.join(TARGET, "release", p), "run", "--seed", str(ctx.seed * 37 + i), "--worlds", "150", "--pools-only", "1", "--jitter", "20", "--out", out2], out=out2, timeout=5400))
        if not NO_MIRI and self.prop in ("C07", "C08"):
            # the schedule code paths (stage.rs, claims, has_run) under Miri, single-threaded through
            # the serial join hook: memory / validity errors; races are the DAG oracle's business
            for i, p in enumerate(self.progs[: (2 if quick else 8)]):
                out = os.path.join(ctx.scratch, f"{p}-miri.json")
                jobs.append(dict(name=p + "-miri", kind="miri", argv=["cargo", "+nightly", "miri", "run", "--offline", "-q"] + CARGO_CONFIG + ["-p", "schedprogs", "--bin", p, "--", "run", "--seed", str(ctx.seed + i), "--worlds", "5" if quick else "15", "--hook-only", "1", "--out", out],
                                 env={"MIRIFLAGS": MIRIFLAGS + " -Zmiri-ignore-leaks", "CARGO_TARGET_DIR": MIRI_TARGET}, out=out, timeout=1800 if quick else 5400))
        for i, p in enumerate(getattr(self, "tsan_progs", [])):
            out = os.path.join(ctx.scratch, f"{p}-tsan.json")
            jobs.append(dict(name=p + "-tsan", kind="native", argv=[os.path.join(TARGET, "tsan", "x86_64-unknown-linux-gnu", "release", p), "run", "--seed", str(ctx.seed * 41 + i), "--worlds", "40", "--pools-only", "1", "--jitter", "30", "--out", out],
                             env={"TSAN_OPTIONS": "halt_on_error=1 exitcode=77"}, out=out, timeout=5400))
        if self.prop == "C12":
            # bounded-progress probes: run_schedule must return on pools of 1, 2 and 16 threads
            for i, p in enumerate(self.progs):
                for pool in (0, 1, 5):
                    out = os.path.join(ctx.scratch, f"{p}-term-{pool}.json")
                    jobs.append(dict(name=f"{p}-term-pool{pool}", kind="term", argv=["python3", os.path.join(ROOT, "lib", "run_term.py"), out, os.path.join(TARGET, "release", p), "term", "--pool", str(pool), "--kind", str(1 + (i + pool) % 4), "--seed", str(ctx.seed + i)],
                                     out=out, timeout=600))
        return jobs


class C14Plan(ToolPlan):
    def build(self, ctx):
        ok, msg = cargo_build(["c14base"], ctx.log, release=False)
        return ok, msg

    def jobs(self, ctx):
        out = os.path.join(ctx.scratch, "c14.json")
        argv = ["python3", os.path.join(ROOT, "lib", "run_c14.py"), out, os.path.join(ctx.scratch, "c14")]
        return [dict(name="c14-family", kind="native", argv=argv, out=out, timeout=3000, death_is_violation=False)]


class CtorPlan(ToolPlan):
    def jobs(self, ctx):
        out = os.path.join(ctx.scratch, "ctor.json")
        jobs = [dict(name="ctor-all", kind="native", argv=[os.path.join(TARGET, "release", "ctor"), "all", "--out", out], out=out, timeout=600)]
        return jobs


ALL_RIGS = ["r5", "r9", "r1", "r0", "r3"]

PLANS = {
    "C01": SeqPlan("C01", ["general"], ALL_RIGS, quick=(5, 120, 300), thorough=(8, 1500, 400), miri_quick=6, miri_thorough=32,
                   what="world content (ids, component sets, values, len/is_empty, extend return values) vs reference map after every op"),
    "C02": SeqPlan("C02", ["aba", "general"], ALL_RIGS, quick=(5, 150, 300), thorough=(8, 2000, 400), miri_quick=0, miri_thorough=16,
                   what="uniqueness of issued identifiers over the world's lifetime; contains/entry/Entries::entry/remove for every identifier ever issued (live, stale of any age, never issued)"),
    "C03": SeqPlan("C03", ["query"], ALL_RIGS, quick=(5, 120, 300), thorough=(8, 1500, 400), miri_quick=8, miri_thorough=32, miri_profile="query",
                   what="every result of generated query instantiations (views x filters x resource views x entry views x sub-views; next/fold/mixed iteration; size_hint before each next) vs model-side evaluation; writes through views land on that entity only"),
    "C04": SeqPlan("C04", ["churn"], ALL_RIGS, quick=(5, 120, 300), thorough=(8, 1500, 400), miri_quick=4, miri_thorough=16, miri_profile="churn", extra_deser=3,
                   what="per-value drop ledger: after every op constructed-minus-dropped per component type equals what the worlds hold; double / unknown / early drops; everything dead after the last world is dropped"),
    "C05": SeqPlan("C05", ["mem", "general", "churn"], ["r5", "r9", "r1"], quick=(6, 100, 300), thorough=(8, 1500, 400), miri_quick=12, miri_thorough=48, miri_profile="mem", asan_thorough=True,
                   what="allocator audit (layout of every dealloc/realloc, double free, unknown free, bytes returned at end of history), self-checking payloads (tag, checksum, alignment, heap bytes), Miri (OOB, dangling, uninit, invalid value, layout, leak), ASan/LSan in thorough"),
    "C06": SeqPlan("C06", ["serde"], ALL_RIGS, quick=(5, 120, 300), thorough=(8, 1500, 400), miri_quick=4, miri_thorough=16, miri_profile="serde", miri_ops=30,
                   what="serde_json (row-wise) and serde_assert tokens (readable + compact/column-wise) round trips at random points: ==, structure dump, then lock-step continuation of original and copy with return values compared"),
    "C07": SchedPlan("C07", floor=1000,
                     what="generated schedule programs (2-6 System/ParSystem tasks over R5 with random views, filters, resource views, entry views; deterministic order-sensitive bodies): run_schedule under the hooked fork/join shim (every join serial a;b, b;a and seeded "
                          "random orders) and on rayon pools of 1/2/3/4/8/16 threads vs run_system/run_par_system one by one on a clone: world, resources, per-system state, run counters",
                     rule="a case is one run of one schedule program on one seeded world in one execution mode; distinct = distinct (program, world kind, pairwise parallel/ordered relation of the tasks) and distinct task start orders observed",
                     assumptions=["system bodies are deterministic, order-sensitive across tasks and order-insensitive across entities (bvh/src/sched.rs)", "program family bounded by compile cost (about 10 s per task per program); evidence lists task counts and stage structures"]),
    "C08": SchedPlan("C08", floor=1000,
                     what="same runs as C07; every task logs its strand path in the fork/join tree (join hook) and its reach set: address+mode of every item its iterator yields, every resource view, and everything its entry views return for every entity id; "
                          "two tasks are logically parallel iff their paths first differ in the branch of the same join; a logically parallel pair with a common address, one side mutable, is a violation for all interleavings of that DAG",
                     rule="as C07; evidence counts logically parallel pairs examined and early-started pairs (parallel although the static grouping separates them)",
                     assumptions=["fork/join structure is observed exactly through the join shim (the only concurrency primitive in stage.rs)", "zero-sized components are exempt (no memory)", "reach through entry views is probed with one sub-view query per declared entry view and entity"]),
    "C12": SchedPlan("C12", floor=300,
                     what="on empty worlds (no early starts, so the fork/join DAG is the static staging) every pair of tasks that a greedy in-order grouping by declared access (views, entry views, resource views; mutable-vs-any conflict) puts in one group must be logically parallel; "
                          "bounded progress: run_schedule returns on rayon pools of 1, 2 and 16 threads within a 120 s watchdog (ms typical), a timeout must reproduce twice to count",
                     rule="as C07; evidence counts same-group pairs checked and termination probes completed",
                     assumptions=["liveness is restated as bounded progress (watchdog >= 1000x typical run time, reproduced twice)", "the reference grouping considers declared access only, not filters"]),
    "C09": SeqPlan("C09", ["par"], ["r5", "r9", "r1"], quick=(6, 100, 250), thorough=(8, 1200, 300), miri_quick=6, miri_thorough=24, miri_profile="par", miri_ops=40, miri_flags="-Zmiri-ignore-leaks", floor_ops=20000, tsan_thorough=True,
                   what="par_query (for_each, map+collect, count, any, find_map_any), run_par_system and run_system over the generated view/filter family on rayon pools of 1/2/3/4/8/16 threads with jitter: multiset of results vs model (= sequential query), "
                        "each entity once, no two results sharing a mutably viewed address, writes land on that entity only; same code under Miri's data-race detector"),
    "C10": SeqPlan("C10", ["clone"], ALL_RIGS, quick=(5, 120, 300), thorough=(8, 1500, 400), miri_quick=4, miri_thorough=16, miri_profile="clone",
                   what="clone()/clone_from() between independently grown worlds: equality, per-table content, no shared allocation, then divergent histories on both sides with every other oracle on"),
    "C11": DeserPlan("C11", floor=5000,
                     what="mutated serializations (serde_json text; serde_assert tokens readable + compact) of worlds grown by the history generator: 1-3 random structural mutations per input, plus every single-token/element deletion, duplication "
                          "and numeric alteration of small worlds; oracle: no panic inside brood, no sink event, Ok worlds pass the structural audit, resolve ids one-to-one and survive a 30-op follow-up history under all sequential oracles",
                     rule="a case is one input handed to Deserialize; distinct = distinct (carrier, mutation kinds applied, outcome class incl. normalised error message); non-trivial = every case (the unmutated identity inputs are a control and are counted under their own class)",
                     level="fault_enumeration",
                     assumptions=["numbers (declared lengths, indices, generations) are capped at the input size, as the property's quantifier states", "panics raised inside the carrier crates (serde_json / serde_assert) are not attributed to brood; such inputs are discarded and counted",
                                  "payload components validate their own checksum on Deserialize, so value corruption is rejected by the component, not by brood"]),
    "C13": SeqPlan("C13", ["general", "aba", "serde", "clone"], ALL_RIGS, quick=(6, 120, 300), thorough=(8, 1500, 400), miri_quick=0, miri_thorough=8,
                   what="structural audit of verif_dump after every op: slots<->rows bijection, free list = inactive slots, len, unique archetype per identifier, lookup tables"),
    "C14": C14Plan("C14", ["c14base"], floor=100, level="other",
                   what="paired program family (gen/gen_c14.py): 83 programs requesting conflicting or thread-unsafe access (two views of one component in views/views, views/entry views, entry/entry positions for all 12 kind pairs with a mutable side; illegal sub-view/super-view pairings; "
                        "repeated entry queries / entry handles / query results alive at once; conflicting resource views; components and resources outside the registry through 12 APIs; non-Send / non-Sync payloads through World by value and by reference, resources, Result.iter, "
                        "Result.entries, par_query, run_par_system, run_schedule views / entry views / system state / resource views) must be rejected by rustc with a bound / borrow error; their 83 one-token twins must compile; every program that compiles is executed under Miri "
                        "(Tree Borrows + data-race detector): a bad program that compiles is reported with the Miri witness",
                   rule="a case is one generated program compiled against brood built from the current tree; all are distinct; bad programs are non-trivial by construction (each differs from a compiling twin in one token)",
                   assumptions=["the deciding observation for the rejection half is rustc's verdict on the library's type-level program (the one place where the observed execution is the compiler's); runtime monitoring covers every accepted program under Miri",
                                "error classes accepted as a proper rejection: trait-bound (E0277/E0599/E0271), index ambiguity (E0283/E0284) and borrow-checker errors"]),
    "C15": SeqPlan("C15", ["res"], ["r5", "r9", "r1", "r3"], quick=(5, 120, 300), thorough=(8, 1500, 400), miri_quick=2, miri_thorough=8, miri_profile="res",
                   what="get/get_mut/view_resources/query resource views vs model per resource; resources unchanged by every entity op, clone, clone_from, round trip"),
    "C17": FaultsPlan("C17", floor=2000, level="fault_enumeration",
                      what="panic injected at every callback position k (Drop, Clone, PartialEq, Debug, Serialize, Deserialize, system / query bodies) of: remove (first/middle/last row, widest archetype), clear, Entry::add overwrite, Entry::remove, world drop, clone, "
                           "clone_from (empty / other / smaller / larger destination), ==, Debug, serialize x3 carriers, deserialize x3 carriers, query, run_system, run_par_system, par_query, and run_schedule of the 14 generated schedule programs (task starts and items, serial hook and 4-thread pool); afterwards full read-only query, further ops, drop of every world; "
                           "oracles: drop ledger, payload poison/checksum, allocator audit, process death; Miri on a sample of the operations without known findings",
                      rule="a case is one (world, operation, k); distinct = distinct (operation, fuse fired?, panicked?) classes; all positions k are enumerated up to --max-k per operation (evenly sampled beyond)",
                      assumptions=["leaks after a panic are allowed by the property and are not reported", "operations with a known finding are skipped in the Miri shards (Miri stops at the first report)",
                                   "a process death is attributed to the operation of the last flushed CASE line; the shard is re-run with that operation skipped"]),
    "C18": CtorPlan("C18", ["ctor"], floor=1000, exhaustive=True,
                    what="every registry of length 2..9 with one pair of equal positions (120 types) x {new, with_resources, default, Deserialize from a valid empty-world input in json / tokens readable / tokens compact} must not return a World; "
                    "the 10 duplicate-free twins (length 0..9) must return through all six; every batch of 1..4 columns with lengths in {0,1,2,3}^n (340): Batch::new panics iff ragged, equal ones extend consistently (audit)",
                    rule="a case is one (registry type, constructor) or one (batch column-length vector); all are distinct; the space stated by the property's quantifier is enumerated completely",
                    assumptions=["generated type family gen/gen_ctor.py covers exactly lengths 2..9 x all position pairs, as the property's quantifier states", "components are Med<k> payloads; the precondition does not depend on the component kind"]),
    "C16": SeqPlan("C16", ["eq"], ALL_RIGS, quick=(5, 120, 300), thorough=(8, 1500, 400), miri_quick=0, miri_thorough=8, miri_profile="eq",
                   what="== in both directions beside model comparison for pairs of worlds reached through different histories, clones and round trips with single-point differences"),
}
