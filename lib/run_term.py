#!/usr/bin/env python3
"""Bounded-progress probe for C12: run `<program> term ...` under a generous watchdog.
A timeout must reproduce on a second attempt to count as a violation (schedule_hang)."""
import json, subprocess, sys, time
out, argv = sys.argv[1], sys.argv[2:]
WATCHDOG = 120
res = []
for attempt in range(2):
    t0 = time.time()
    try:
        p = subprocess.run(argv, stdout=subprocess.PIPE, stderr=subprocess.PIPE, timeout=WATCHDOG)
        res.append(("rc", p.returncode, time.time() - t0, p.stdout.decode("utf-8", "replace")[-300:], p.stderr.decode("utf-8", "replace")[-600:]))
        break
    except subprocess.TimeoutExpired:
        res.append(("timeout", None, time.time() - t0, "", ""))
viol = []
if all(r[0] == "timeout" for r in res) and len(res) == 2:
    viol.append(dict(prop="C12", sig="schedule_hang", detail=f"run_schedule did not return within {WATCHDOG} s twice in a row: {' '.join(argv)}"))
elif res[-1][0] == "rc" and res[-1][1] != 0:
    viol.append(dict(prop="C12", sig="schedule_crash", detail=f"termination probe died rc={res[-1][1]}: {' '.join(argv)}\n{res[-1][4]}"))
json.dump(dict(monitor="term", cases=0, term_probes=1, term_completed=1 if res[-1][0] == "rc" and res[-1][1] == 0 else 0, term_first_attempt_timeouts=1 if res[0][0] == "timeout" else 0, term_max_wall_s=max(r[2] for r in res), violations=viol, samples=[]), open(out, "w"))
