"""Prose for MANIFEST.json (kept apart from the plan table)."""

SEQ_NOTE = ("Trusted: the ~400-line reference model and oracles in bvh/src/model.rs + seq.rs, the self-identifying payload types, the generated typed dispatch "
            "(gen/gen_rig.py) and, for C13-style structure checks, the read-only verif_dump hook. Covers only generated histories over the rigs R5 (all 32 shapes), R9 (2-byte "
            "identifier, 48 shapes + every archetype through Entry ops), R3 (zero-sized and one-byte components first), R1, R0; Miri shards cover short histories only.")


def seq(text, ref, technique="reference-model monitor over generated API histories (native + Miri)"):
    return dict(engine="bvh-seq", level_text=text, design_ref=ref, level_note=SEQ_NOTE, technique=technique)


CHECKS = {
    "C01": seq("Exploration: generated histories of every public operation run against the real World and an executable reference map; return values, len/is_empty and a full snapshot are compared after every op. "
               "Right level because the property quantifies over all histories: only an oracle running across ~10^5-10^6 ops on dense small worlds reaches row moves, slot reuse and archetype creation in combination.", "DESIGN.md §6 C01"),
    "C02": seq("Exploration: every identifier ever issued in a world's lifetime (inherited by clones / round trips) is probed with contains after every op, a sample with entry/Entries::entry, stale removes must be no-ops, "
               "re-issue of an identifier is checked against the full issued set; the 'aba' profile keeps 1-10 slots hot with batches around the free-list size.", "DESIGN.md §6 C02"),
    "C03": seq("Exploration over a generated family of ~145 (R5) / ~115 (R9) query instantiations x reachable world states: each yielded item is resolved to an entity through its identifier or unique values and compared with model-side "
               "evaluation of views+filter; size_hint before every next(); next/fold/mixed iteration; entry sub-view queries interleaved; Miri runs the same code for the MaybeUninit sub-view paths.", "DESIGN.md §6 C03"),
    "C04": seq("Exploration with a conservation oracle: an id ledger (double / unknown drop, use of dead value) plus per-type constructed-minus-dropped counters compared with the model's holdings after every op and at quiescence.", "DESIGN.md §6 C04",
               "drop-ledger conservation monitor over generated histories"),
    "C05": seq("Exploration under memory tooling: auditing GlobalAlloc (layout on every dealloc/realloc, double/unknown free, bytes returned per history), self-checking payloads, Miri shards (quick) and ASan/LSan (thorough). "
               "A clean run means 'no report on these executions', not memory safety.", "DESIGN.md §6 C05", "allocator audit + self-checking payloads + Miri + ASan over generated histories"),
    "C06": seq("Exploration: round trips through serde_json (row-wise) and serde_assert token streams (readable and compact/column-wise) at random points of histories; ==, structure dump and then lock-step execution of "
               "the following ops on original and copy with return values (identifiers issued) compared.", "DESIGN.md §6 C06"),
    "C09": seq("Exploration: the parallel members of the generated query family (par_query with five consumers, ParSystem, System) run on pools of 1..16 threads with seeded jitter inside histories that keep changing the world; "
               "collected items (address, id, values) are compared with model-side evaluation exactly as for sequential queries, mutable addresses must be pairwise distinct; Miri (data-race detector) runs the same code on small pools.", "DESIGN.md §6 C09",
               "reference-model monitor over parallel iterations on several pool sizes (native + Miri race detector)"),
    "C10": seq("Exploration: clone/clone_from between independently grown worlds in both directions, equality, per-table content, disjointness of every allocation address in the two dumps, then divergent histories on both under all oracles.", "DESIGN.md §6 C10"),
    "C13": seq("Exploration with an invariant hook: the read-only verif_dump of the world is audited after every op of every history (slot<->row bijection, free list, len, one table per component set, lookup tables).", "DESIGN.md §6 C13",
               "structural audit of a hooked state dump after every op"),
    "C15": seq("Exploration: resources read through get/get_mut/view_resources (generated view lists in accepted orders)/query resource views and compared with the model after every op; conservation of resource values through the ledger.", "DESIGN.md §6 C15"),
    "C16": seq("Exploration: == evaluated in both directions beside a comparison of the two reference models, on pools of worlds related by clones, round trips and single mutations; soundness only (completeness is not stated by the property).", "DESIGN.md §6 C16"),
}

CHECKS["C18"] = dict(engine="bvh-ctor", design_ref="DESIGN.md §6 C18", technique="exhaustive run-time enumeration of constructors under catch_unwind",
    level_text="Exhaustive enumeration at run time of the configuration space the property quantifies over: 120 duplicate registries x 6 constructors must panic (or fail), 10 duplicate-free twins x 6 must return, "
               "340 batch length vectors: Batch::new panics iff ragged. exhaustive=true in the evidence; this is the right level because the space is finite and small.",
    level_note="Trusted: catch_unwind observes the panic; the generator enumerates the stated space; deserialization inputs are the twin's own empty-world serialization in three carriers.")

CHECKS["C11"] = dict(engine="bvh-deser", design_ref="DESIGN.md §6 C11", technique="fault injection on serialized inputs + audit/ledger/model oracles on the result (native + Miri)",
    level_text="Fault enumeration over inputs: structured mutations of valid serializations in three carriers (random 1-3 mutations; exhaustive single-token/element deletions, duplications and numeric alterations for small worlds). "
               "Each input is deserialized under catch_unwind with the drop ledger, allocator audit and payload checks on; every Ok world is audited through verif_dump and driven through a follow-up history.",
    level_note="Trusted: the mutators in bvh/src/deser.rs reach the stated input classes; carrier-crate panics are discarded; lengths capped at input size. Miri covers a small sample.")

CHECKS["C17"] = dict(engine="bvh-faults", design_ref="DESIGN.md §6 C17", technique="panic-injection at every callback position + ledger/allocator/poison oracles (subprocess shards, Miri sample)",
    level_text="Fault enumeration: for each operation that calls user code a dry run counts the callbacks, then a panic is injected at every position k on a fresh identical world; after unwinding every stored value is read, further operations run and "
               "all worlds are dropped. Violations are keyed by (operation, callback kind); the six (operation, callback) pairs with a recorded known finding print KNOWN-FINDING, anything else fails.",
    level_note="Trusted: fuses in the payload callbacks fire exactly once; ledger/poison/allocator audit observe double drops and use of dropped values; small worlds (<=9 entities, multi-column archetypes). A crash is attributed by the last flushed CASE line.")

SCHED_NOTE = ("Trusted: the join shim in brood (cfg brood_verif) forwards both closures unchanged; bvh/src/sched.rs computes logical parallelism from strand paths; generated systems log every access they are handed. "
              "Program family: 12 committed programs (quick) + 24 regenerated per VERIF_SEED (thorough), 2-6 tasks each, bounded by compile cost.")
CHECKS["C07"] = dict(engine="bvh-sched", design_ref="DESIGN.md §6 C07", technique="differential run of generated schedules (hooked join orders + real pools) against sequential execution on a clone",
    level_text="Exploration: each generated schedule program runs on seeded worlds (empty, one shared archetype, disjoint archetypes, random mix, many small archetypes) under 6 hooked join orders and several real pool sizes; "
               "final world, resources, per-system state and per-task run counters must equal the sequential reference.", level_note=SCHED_NOTE)
CHECKS["C08"] = dict(engine="bvh-sched", design_ref="DESIGN.md §6 C08", technique="fork/join DAG race check: strand paths from the join hook + per-task reach sets (all interleavings of an observed DAG at once)",
    level_text="Exploration with a logical-parallelism oracle: for every observed run the tasks' strand paths give the fork/join DAG; any logically parallel pair whose recorded reach sets (iterator items, resource views, entry-view reach over all entities) "
               "share an address with one side mutable is a violation, independent of timing.", level_note=SCHED_NOTE)
CHECKS["C12"] = dict(engine="bvh-sched", design_ref="DESIGN.md §6 C12", technique="fork/join DAG of empty-world runs vs reference greedy grouping; bounded-progress probes on 1/2/16-thread pools",
    level_text="Exploration: on empty worlds the observed fork/join relation must make every same-group pair of the 20-line reference grouping logically parallel; termination is checked as bounded progress under a 120 s watchdog (reproduced twice).", level_note=SCHED_NOTE)

CHECKS["C14"] = dict(engine="c14-family", design_ref="DESIGN.md §6 C14", technique="compile the generated accept/reject program pairs against the current tree; run every accepted program under Miri (Tree Borrows, data races)",
    level_text="Other: the property is about which programs rustc accepts. The check executes the compiler on a systematically generated paired family (bad program / one-token twin) built against brood from the current tree, and executes every accepted program "
               "under Miri so that an unexpectedly accepted conflicting program is witnessed by a concrete aliasing / data-race report. Coverage is the enumerated family, not all programs.",
    level_note="Trusted: rustc's accept/reject verdict and error class; the family in gen/gen_c14.py. The rejection half is not a runtime observation of brood (see DESIGN.md §6 C14 and §10).")

NOT_APPLICABLE = {}

ENGINES = [
    dict(name="c14-family", path="/verif/lib/run_c14.py", serves_properties=["C14"], kind_free_text="generated accept/reject program pairs compiled with rustc against the current tree; accepted programs executed under Miri"),
    dict(name="bvh-sched", path="/verif/bvh/src/sched.rs", serves_properties=["C07", "C08", "C12"], kind_free_text="schedule monitor: generated schedule programs, join-hook strand paths, reach-set race check, sequential differential, termination probes"),
    dict(name="bvh-faults", path="/verif/bvh/src/faults.rs", serves_properties=["C17"], kind_free_text="panic-injection monitor: fuse at the k-th user callback, then ledger / allocator / payload oracles over the aftermath"),
    dict(name="bvh-deser", path="/verif/bvh/src/deser.rs", serves_properties=["C11", "C04"], kind_free_text="hostile-input monitor: mutated serializations -> Deserialize under panic/ledger/allocator/audit/model oracles"),
    dict(name="bvh-ctor", path="/verif/ctor/src/main.rs", serves_properties=["C18"], kind_free_text="exhaustive constructor / batch precondition enumeration under catch_unwind"),
    dict(name="bvh-seq", path="/verif/bvh/src/seq.rs", serves_properties=["C01", "C02", "C03", "C04", "C05", "C06", "C09", "C10", "C13", "C15", "C16"],
         kind_free_text="sequential-history runtime monitor: generated op histories on real World vs reference model, drop ledger, allocator audit, structural audit; same binaries under Miri and ASan"),
]

NOTES = ("Runtime monitoring only. ./check <id> quick|thorough rebuilds the monitors from /repo's working tree (cargo path dependency, --cfg brood_verif), runs native + Miri (+ASan in thorough) shards in parallel, "
         "writes evidence/<id>.json, prints KNOWN-FINDING lines for entries of known_findings.json and VIOLATION only for anything else. Exit 2 = INCONCLUSIVE (never folded into pass or fail).")
