#!/usr/bin/env python3
"""Regenerate MANIFEST.json from the plan table (keeps the manifest and the driver in step)."""
import json, os, subprocess, sys
ROOT = os.path.dirname(os.path.dirname(os.path.abspath(__file__)))
sys.path.insert(0, os.path.join(ROOT, "lib"))
import plans
import manifest_text as T

props = [json.loads(l) for l in open(os.path.join(ROOT, "properties.jsonl"))]
commits = subprocess.check_output(["git", "-C", "/repo", "log", "--format=%h %s"]).decode().splitlines()
hook_commits = [c.split()[0] for c in commits if c.split(" ", 1)[1].startswith("verif hook:")]
checks = []
na = []
for p in props:
    pid = p["id"]
    if pid in plans.PLANS and pid in T.CHECKS:
        t = T.CHECKS[pid]
        checks.append(dict(
            property_id=pid,
            quick_cmd=f"./check {pid} quick",
            thorough_cmd=f"./check {pid} thorough",
            evidence_file=f"/verif/evidence/{pid}.json",
            replay_cmd_template="./check " + pid + " --replay {path}",
            engine=t["engine"],
            level_claimed=dict(category=plans.PLANS[pid].level, text=t["level_text"], design_ref=t["design_ref"]),
            level_note=t["level_note"],
            technique=t["technique"],
        ))
    else:
        na.append(dict(property_id=pid, reason=T.NOT_APPLICABLE.get(pid, "no runtime monitor has been built for this property yet in this tree; it is not claimed")))
m = dict(
    version=1,
    setup_cmd="./check build",
    hooks=dict(
        guard="brood_verif",
        enable="RUSTFLAGS/--cfg brood_verif (set for every build of /verif through /verif/.cargo/config.toml; sanitizer builds pass it in RUSTFLAGS)",
        baseline_off_cmd="cd /repo && cargo test --workspace --no-fail-fast --offline",
        source_commits=hook_commits,
        add_only=True,
    ),
    engines=T.ENGINES,
    checks=checks,
    not_applicable=na,
    notes=T.NOTES,
)
json.dump(m, open(os.path.join(ROOT, "MANIFEST.json"), "w"), indent=1)
print(f"MANIFEST.json: {len(checks)} checks, {len(na)} not applicable")
