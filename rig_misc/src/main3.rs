fn main() { rig_misc::main3(); }
