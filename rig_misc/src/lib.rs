pub mod r1 {
    include!(concat!(env!("OUT_DIR"), "/rig1.rs"));
}
pub mod r0 {
    include!(concat!(env!("OUT_DIR"), "/rig0.rs"));
}
pub mod r3 {
    include!(concat!(env!("OUT_DIR"), "/rig3.rs"));
}
pub fn main3() {
    bvh::cli::main::<r3::R3>();
}
pub fn main1() {
    bvh::cli::main::<r1::R1>();
}
pub fn main0() {
    bvh::cli::main::<r0::R0>();
}
