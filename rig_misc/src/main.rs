fn main() { rig_misc::main1(); }
