fn main() { rig_misc::main0(); }
