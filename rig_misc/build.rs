use std::process::Command;
fn main() {
    let out = std::env::var("OUT_DIR").unwrap();
    let seed = std::env::var("BVH_GEN_SEED").unwrap_or_else(|_| "1".into());
    println!("cargo:rerun-if-env-changed=BVH_GEN_SEED");
    println!("cargo:rerun-if-changed=../gen/gen_rig.py");
    println!("cargo:rerun-if-changed=build.rs");
    for (spec, nq, file) in [("R1:Heap:1:all:20", "24", "rig1.rs"), ("R0::0:all:24", "4", "rig0.rs"), ("R3:Zst,Small,Heap:3:all:28:Plain,Plain,Plain", "60", "rig3.rs")] {
        let st = Command::new("python3")
            .args(["../gen/gen_rig.py", spec, &seed, nq, &format!("{out}/{file}")])
            .status()
            .expect("run gen_rig.py");
        assert!(st.success(), "gen_rig.py failed");
    }
}
