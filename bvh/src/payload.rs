//! Self-identifying payload component / resource types.
//!
//! Every value knows the static type tag `K` it was built for, carries a checksum over its
//! header, and (except for the 1-byte and zero-sized kinds) a unique instance id registered in the
//! drop ledger. Reading a value whose tag or checksum is wrong, or whose instance id is not live,
//! is direct evidence of type confusion, out-of-bounds or stale access.

use crate::fuse::{self, Cb};
use crate::ledger::{self, Born};
use crate::prng::mix2;
use crate::sink;
use serde::de::Error as _;
use serde_derive::{Deserialize, Serialize};
use std::fmt;

#[derive(Clone, Copy, Debug, PartialEq, Eq, Hash)]
pub enum Kind {
    Med,
    Heap,
    Wide,
    Small,
    Zst,
}

/// What a monitor sees when it looks at a payload value.
#[derive(Clone, Copy, Debug, PartialEq, Eq, Hash, PartialOrd, Ord)]
pub struct Obs {
    /// Instance id (0 for kinds without identity).
    pub iid: u64,
    /// Logical value.
    pub val: u64,
}

pub trait Payload:
    'static + Sized + Clone + PartialEq + fmt::Debug + serde::Serialize + serde::de::DeserializeOwned + Send + Sync
{
    const K: u32;
    const KIND: Kind;
    /// Carries an instance id / unique values.
    const IDENT: bool;
    /// Normalise a logical value to what this kind can store.
    fn norm(val: u64) -> u64;
    fn make(val: u64) -> Self;
    /// Observe (and validate) the value.
    fn obs(&self, ctx: &'static str) -> Obs;
    /// Overwrite the logical value through a mutable reference.
    fn set(&mut self, val: u64);
    fn addr(&self) -> usize {
        self as *const Self as usize
    }
}

#[derive(Serialize, Deserialize)]
struct Wire {
    tag: u32,
    val: u64,
    chk: u64,
}

/// Checksum carried on the wire. Kept to 16 bits so that every number in a serialized world is
/// small: the hostile-input monitor moves numbers around, and a declared length must stay within
/// what the property's quantifier allows (bounded by the input size, not 2^64).
fn wire_chk(tag: u32, val: u64) -> u64 {
    mix2(0x5eed_0000 + tag as u64, val) & 0xffff
}

fn hdr_chk(iid: u64, tag: u32, val: u64) -> u64 {
    mix2(mix2(iid, tag as u64), val)
}

#[derive(Clone, Copy)]
struct Hdr {
    iid: u64,
    tag: u32,
    val: u64,
    chk: u64,
}

impl Hdr {
    fn new(k: u32, val: u64, how: Born) -> Hdr {
        let iid = ledger::born(k, how);
        Hdr { iid, tag: k, val, chk: hdr_chk(iid, k, val) }
    }
    fn valid(&self, k: u32) -> bool {
        self.tag == k && self.chk == hdr_chk(self.iid, self.tag, self.val)
    }
    fn obs(&self, k: u32, ctx: &'static str) -> Obs {
        if !self.valid(k) {
            sink::report(
                "bad_payload",
                format!(
                    "expected type K{k} at={ctx}: tag={} iid={} val={:#x} chk={:#x}",
                    self.tag, self.iid, self.val, self.chk
                ),
            );
            return Obs { iid: 0, val: u64::MAX };
        }
        ledger::check_live(self.iid, k, ctx);
        Obs { iid: self.iid, val: self.val }
    }
    fn set(&mut self, k: u32, val: u64) {
        // Validate before writing: writing through a wild reference must not go unnoticed.
        let _ = self.obs(k, "set");
        self.val = val;
        self.chk = hdr_chk(self.iid, self.tag, val);
    }
    fn dropped(&mut self, k: u32) {
        if !self.valid(k) {
            sink::report(
                "bad_payload_in_drop",
                format!(
                    "expected type K{k}: tag={} iid={} val={:#x} chk={:#x}",
                    self.tag, self.iid, self.val, self.chk
                ),
            );
            return;
        }
        ledger::died(self.iid, k);
        // Poison so that a second drop of the same bytes is caught even if the ledger were
        // bypassed, and so that stale reads fail the checksum.
        self.chk = !self.chk;
    }
}

macro_rules! common_impls {
    ($T:ident) => {
        impl<const K: u32> fmt::Debug for $T<K> {
            fn fmt(&self, f: &mut fmt::Formatter<'_>) -> fmt::Result {
                fuse::hit(Cb::Debug);
                let o = <Self as Payload>::obs(self, "Debug");
                write!(f, concat!(stringify!($T), "<{}>({})"), K, o.val)
            }
        }
        impl<const K: u32> PartialEq for $T<K> {
            fn eq(&self, other: &Self) -> bool {
                fuse::hit(Cb::Eq);
                let a = <Self as Payload>::obs(self, "PartialEq");
                let b = <Self as Payload>::obs(other, "PartialEq");
                a.val == b.val
            }
        }
        impl<const K: u32> serde::Serialize for $T<K> {
            fn serialize<S: serde::Serializer>(&self, s: S) -> Result<S::Ok, S::Error> {
                fuse::hit(Cb::Ser);
                let o = <Self as Payload>::obs(self, "Serialize");
                serde::Serialize::serialize(&Wire { tag: K, val: o.val, chk: wire_chk(K, o.val) }, s)
            }
        }
        impl<'de, const K: u32> serde::Deserialize<'de> for $T<K> {
            fn deserialize<D: serde::Deserializer<'de>>(d: D) -> Result<Self, D::Error> {
                fuse::hit(Cb::De);
                let w = <Wire as serde::Deserialize>::deserialize(d)?;
                if w.tag != K {
                    return Err(D::Error::custom(format!("payload tag {} where K{} expected", w.tag, K)));
                }
                if w.chk != wire_chk(K, w.val) || w.val != <Self as Payload>::norm(w.val) {
                    return Err(D::Error::custom("payload checksum mismatch"));
                }
                Ok(<$T<K>>::build(w.val, Born::Deser))
            }
        }
    };
}

// ---------------------------------------------------------------------------------------------
// Med: plain header.

pub struct Med<const K: u32> {
    h: Hdr,
}
impl<const K: u32> Med<K> {
    fn build(val: u64, how: Born) -> Self {
        Med { h: Hdr::new(K, val, how) }
    }
}
impl<const K: u32> Clone for Med<K> {
    fn clone(&self) -> Self {
        fuse::hit(Cb::Clone);
        let o = self.h.obs(K, "Clone");
        Self::build(o.val, Born::Clone)
    }
}
impl<const K: u32> Drop for Med<K> {
    fn drop(&mut self) {
        self.h.dropped(K);
        fuse::hit(Cb::Drop);
    }
}
impl<const K: u32> Payload for Med<K> {
    const K: u32 = K;
    const KIND: Kind = Kind::Med;
    const IDENT: bool = true;
    fn norm(val: u64) -> u64 {
        val
    }
    fn make(val: u64) -> Self {
        Self::build(val, Born::New)
    }
    fn obs(&self, ctx: &'static str) -> Obs {
        self.h.obs(K, ctx)
    }
    fn set(&mut self, val: u64) {
        self.h.set(K, val)
    }
}
common_impls!(Med);

// ---------------------------------------------------------------------------------------------
// Heap: header + owned heap buffer derived from the value.

pub struct Heap<const K: u32> {
    h: Hdr,
    data: Vec<u8>,
}
fn heap_bytes(k: u32, val: u64) -> Vec<u8> {
    let n = 1 + (mix2(k as u64, val) % 23) as usize;
    (0..n).map(|i| (mix2(val, i as u64) & 0xff) as u8).collect()
}
impl<const K: u32> Heap<K> {
    fn build(val: u64, how: Born) -> Self {
        Heap { h: Hdr::new(K, val, how), data: heap_bytes(K, val) }
    }
    fn check_data(&self, ctx: &'static str) {
        if self.h.valid(K) && ledger::is_live(self.h.iid) && self.data != heap_bytes(K, self.h.val) {
            sink::report(
                "bad_payload",
                format!("Heap<K{K}> iid={} at={ctx}: heap bytes do not match value", self.h.iid),
            );
        }
    }
}
impl<const K: u32> Clone for Heap<K> {
    fn clone(&self) -> Self {
        fuse::hit(Cb::Clone);
        let o = <Self as Payload>::obs(self, "Clone");
        Self::build(o.val, Born::Clone)
    }
}
impl<const K: u32> Drop for Heap<K> {
    fn drop(&mut self) {
        if self.h.valid(K) {
            self.check_data("Drop");
            self.h.dropped(K);
        } else {
            self.h.dropped(K);
            // Do not free a buffer described by garbage.
            std::mem::forget(std::mem::take(&mut self.data));
        }
        fuse::hit(Cb::Drop);
    }
}
impl<const K: u32> Payload for Heap<K> {
    const K: u32 = K;
    const KIND: Kind = Kind::Heap;
    const IDENT: bool = true;
    fn norm(val: u64) -> u64 {
        val
    }
    fn make(val: u64) -> Self {
        Self::build(val, Born::New)
    }
    fn obs(&self, ctx: &'static str) -> Obs {
        let o = self.h.obs(K, ctx);
        if o.iid != 0 {
            self.check_data(ctx);
        }
        o
    }
    fn set(&mut self, val: u64) {
        let o = self.h.obs(K, "set");
        if o.iid != 0 {
            self.h.set(K, val);
            self.data = heap_bytes(K, val);
        }
    }
}
common_impls!(Heap);

// ---------------------------------------------------------------------------------------------
// Wide: over-aligned header.

#[repr(align(64))]
pub struct Wide<const K: u32> {
    h: Hdr,
    pad: [u8; 3],
}
impl<const K: u32> Wide<K> {
    fn build(val: u64, how: Born) -> Self {
        Wide { h: Hdr::new(K, val, how), pad: [0xA5, 0x5A, 0xC3] }
    }
}
impl<const K: u32> Clone for Wide<K> {
    fn clone(&self) -> Self {
        fuse::hit(Cb::Clone);
        let o = <Self as Payload>::obs(self, "Clone");
        Self::build(o.val, Born::Clone)
    }
}
impl<const K: u32> Drop for Wide<K> {
    fn drop(&mut self) {
        self.h.dropped(K);
        fuse::hit(Cb::Drop);
    }
}
impl<const K: u32> Payload for Wide<K> {
    const K: u32 = K;
    const KIND: Kind = Kind::Wide;
    const IDENT: bool = true;
    fn norm(val: u64) -> u64 {
        val
    }
    fn make(val: u64) -> Self {
        Self::build(val, Born::New)
    }
    fn obs(&self, ctx: &'static str) -> Obs {
        if (self as *const Self as usize) % 64 != 0 {
            sink::report("misaligned_payload", format!("Wide<K{K}> at {:#x} ({ctx})", self as *const Self as usize));
        }
        let o = self.h.obs(K, ctx);
        if o.iid != 0 && self.pad != [0xA5, 0x5A, 0xC3] {
            sink::report("bad_payload", format!("Wide<K{K}> iid={} pad bytes clobbered ({ctx})", o.iid));
        }
        o
    }
    fn set(&mut self, val: u64) {
        self.h.set(K, val)
    }
}
common_impls!(Wide);

// ---------------------------------------------------------------------------------------------
// Small: one byte. Low 5 bits = value, high 3 bits = K mod 8. Counted, no identity.

pub struct Small<const K: u32>(u8);
impl<const K: u32> Small<K> {
    fn build(val: u64, _how: Born) -> Self {
        ledger::type_born(K);
        Small(((val & 0x1f) as u8) | (((K & 7) as u8) << 5))
    }
}
impl<const K: u32> Clone for Small<K> {
    fn clone(&self) -> Self {
        fuse::hit(Cb::Clone);
        let o = <Self as Payload>::obs(self, "Clone");
        Self::build(o.val, Born::Clone)
    }
}
impl<const K: u32> Drop for Small<K> {
    fn drop(&mut self) {
        if self.0 >> 5 != (K & 7) as u8 {
            sink::report("bad_payload_in_drop", format!("Small<K{K}> byte={:#x}", self.0));
        }
        ledger::type_died(K);
        fuse::hit(Cb::Drop);
    }
}
impl<const K: u32> Payload for Small<K> {
    const K: u32 = K;
    const KIND: Kind = Kind::Small;
    const IDENT: bool = false;
    fn norm(val: u64) -> u64 {
        val & 0x1f
    }
    fn make(val: u64) -> Self {
        Self::build(val, Born::New)
    }
    fn obs(&self, ctx: &'static str) -> Obs {
        if self.0 >> 5 != (K & 7) as u8 {
            sink::report("bad_payload", format!("Small<K{K}> byte={:#x} at={ctx}", self.0));
            return Obs { iid: 0, val: u64::MAX };
        }
        Obs { iid: 0, val: (self.0 & 0x1f) as u64 }
    }
    fn set(&mut self, val: u64) {
        let _ = self.obs("set");
        self.0 = ((val & 0x1f) as u8) | (((K & 7) as u8) << 5);
    }
}
common_impls!(Small);

// ---------------------------------------------------------------------------------------------
// Zst: zero-sized. Counted only.

pub struct Zst<const K: u32>;
impl<const K: u32> Zst<K> {
    fn build(_val: u64, _how: Born) -> Self {
        ledger::type_born(K);
        Zst
    }
}
impl<const K: u32> Clone for Zst<K> {
    fn clone(&self) -> Self {
        fuse::hit(Cb::Clone);
        Self::build(0, Born::Clone)
    }
}
impl<const K: u32> Drop for Zst<K> {
    fn drop(&mut self) {
        ledger::type_died(K);
        fuse::hit(Cb::Drop);
    }
}
impl<const K: u32> Payload for Zst<K> {
    const K: u32 = K;
    const KIND: Kind = Kind::Zst;
    const IDENT: bool = false;
    fn norm(_val: u64) -> u64 {
        0
    }
    fn make(_val: u64) -> Self {
        Self::build(0, Born::New)
    }
    fn obs(&self, _ctx: &'static str) -> Obs {
        Obs { iid: 0, val: 0 }
    }
    fn set(&mut self, _val: u64) {}
}
common_impls!(Zst);

// ---------------------------------------------------------------------------------------------
// Plain: identity in memory, but a bare number on the wire (no tag, no checksum). Two `Plain`
// resources have interchangeable encodings, so a (de)serializer that mixes up positions swaps
// their values silently instead of failing a tag check -- visible to the resource oracle (C15).

pub struct Plain<const K: u32> {
    h: Hdr,
}
impl<const K: u32> Plain<K> {
    fn build(val: u64, how: Born) -> Self {
        Plain { h: Hdr::new(K, val, how) }
    }
}
impl<const K: u32> Clone for Plain<K> {
    fn clone(&self) -> Self {
        fuse::hit(Cb::Clone);
        let o = self.h.obs(K, "Clone");
        Self::build(o.val, Born::Clone)
    }
}
impl<const K: u32> Drop for Plain<K> {
    fn drop(&mut self) {
        self.h.dropped(K);
        fuse::hit(Cb::Drop);
    }
}
impl<const K: u32> Payload for Plain<K> {
    const K: u32 = K;
    const KIND: Kind = Kind::Med;
    const IDENT: bool = true;
    fn norm(val: u64) -> u64 {
        val
    }
    fn make(val: u64) -> Self {
        Self::build(val, Born::New)
    }
    fn obs(&self, ctx: &'static str) -> Obs {
        self.h.obs(K, ctx)
    }
    fn set(&mut self, val: u64) {
        self.h.set(K, val)
    }
}
impl<const K: u32> fmt::Debug for Plain<K> {
    fn fmt(&self, f: &mut fmt::Formatter<'_>) -> fmt::Result {
        fuse::hit(Cb::Debug);
        write!(f, "Plain<{}>({})", K, <Self as Payload>::obs(self, "Debug").val)
    }
}
impl<const K: u32> PartialEq for Plain<K> {
    fn eq(&self, other: &Self) -> bool {
        fuse::hit(Cb::Eq);
        <Self as Payload>::obs(self, "PartialEq").val == <Self as Payload>::obs(other, "PartialEq").val
    }
}
impl<const K: u32> serde::Serialize for Plain<K> {
    fn serialize<S: serde::Serializer>(&self, s: S) -> Result<S::Ok, S::Error> {
        fuse::hit(Cb::Ser);
        s.serialize_u64(<Self as Payload>::obs(self, "Serialize").val)
    }
}
impl<'de, const K: u32> serde::Deserialize<'de> for Plain<K> {
    fn deserialize<D: serde::Deserializer<'de>>(d: D) -> Result<Self, D::Error> {
        fuse::hit(Cb::De);
        let v = <u64 as serde::Deserialize>::deserialize(d)?;
        Ok(Self::build(v, Born::Deser))
    }
}
