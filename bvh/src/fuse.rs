//! Fuses: panic injection at the k-th user callback the library invokes (C17), plus callback
//! counters (dry runs).

use std::sync::atomic::{AtomicI64, AtomicU32, AtomicU64, Ordering};

#[derive(Clone, Copy, Debug, PartialEq, Eq, Hash)]
#[repr(u8)]
pub enum Cb {
    Clone = 0,
    Drop = 1,
    Eq = 2,
    Debug = 3,
    Ser = 4,
    De = 5,
    Body = 6,
}
pub const NCB: usize = 7;
pub const CB_NAMES: [&str; NCB] = ["Clone", "Drop", "PartialEq", "Debug", "Serialize", "Deserialize", "Body"];

/// Countdown; <0 = disarmed.
static FUSE: AtomicI64 = AtomicI64::new(-1);
/// Bit mask of callback kinds the fuse listens to.
static MASK: AtomicU32 = AtomicU32::new(0);
/// Bit mask of callback kinds that are being counted.
static COUNT_MASK: AtomicU32 = AtomicU32::new(0);
static COUNTED: AtomicU64 = AtomicU64::new(0);
static FIRED: AtomicU64 = AtomicU64::new(0);
static LAST_CB: AtomicU32 = AtomicU32::new(0);
/// Print a `FUSE cb=<kind>` line to stderr when the fuse fires (lets a supervising process
/// attribute a later crash).
pub static VERBOSE: AtomicU32 = AtomicU32::new(0);

/// Kind of the callback in which the fuse fired last.
pub fn last_fired_cb() -> &'static str {
    CB_NAMES[(LAST_CB.load(Ordering::SeqCst) as usize) % NCB]
}

pub struct FusePanic(pub Cb);

/// Arm: the `k`-th (1-based) callback whose kind is in `mask` panics.
pub fn arm(mask: u32, k: u64) {
    MASK.store(mask, Ordering::SeqCst);
    FUSE.store(k as i64, Ordering::SeqCst);
}
pub fn disarm() {
    FUSE.store(-1, Ordering::SeqCst);
    MASK.store(0, Ordering::SeqCst);
}
pub fn fired() -> u64 {
    FIRED.load(Ordering::SeqCst)
}
pub fn count_start(mask: u32) {
    COUNTED.store(0, Ordering::SeqCst);
    COUNT_MASK.store(mask, Ordering::SeqCst);
}
pub fn count_stop() -> u64 {
    COUNT_MASK.store(0, Ordering::SeqCst);
    COUNTED.load(Ordering::SeqCst)
}
pub const fn bit(cb: Cb) -> u32 {
    1 << (cb as u8)
}

/// Called by every user callback.
#[inline]
pub fn hit(cb: Cb) {
    let b = bit(cb);
    if COUNT_MASK.load(Ordering::Relaxed) & b != 0 {
        COUNTED.fetch_add(1, Ordering::SeqCst);
    }
    if MASK.load(Ordering::Relaxed) & b != 0 {
        let prev = FUSE.fetch_sub(1, Ordering::SeqCst);
        if prev == 1 {
            FIRED.fetch_add(1, Ordering::SeqCst);
            LAST_CB.store(cb as u32, Ordering::SeqCst);
            MASK.store(0, Ordering::SeqCst);
            if VERBOSE.load(Ordering::Relaxed) != 0 {
                eprintln!("FUSE cb={}", CB_NAMES[cb as usize]);
            }
            if !std::thread::panicking() {
                std::panic::panic_any(FusePanic(cb));
            }
        }
    }
}
