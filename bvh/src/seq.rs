//! Sequential-history monitor: drives random (or replayed) histories of the public API against a
//! real `World` and the reference model, and runs every oracle after every operation.

use crate::audit;
use crate::ledger;
use crate::model::{self, IdP, Model};
use crate::prng::Rng;
use crate::rig::{ident, parts, Consumer, IterMode, ParCtx, ParRig, QCtx, Rig, CONSUMERS, W};
use crate::sink;
use serde::{Deserialize as _, Serialize as _};
use serde_derive::{Deserialize, Serialize};
use std::collections::{BTreeMap, BTreeSet};
use std::panic::{catch_unwind, AssertUnwindSafe};

pub const POOL: usize = 3;

#[derive(Clone, Debug, Serialize, Deserialize, PartialEq)]
pub enum Op {
    NewWorld { w: usize, res: Vec<u64> },
    DropWorld { w: usize },
    Insert { w: usize, shape: u32, order: u8, vals: Vec<u64> },
    Extend { w: usize, shape: u32, order: u8, rows: Vec<Vec<u64>>, slack: usize, form: u8 },
    Remove { w: usize, id: IdP },
    Clear { w: usize },
    EntryAdd { w: usize, id: IdP, k: usize, val: u64 },
    EntryRemove { w: usize, id: IdP, k: usize },
    EntryMulti { w: usize, id: IdP, steps: Vec<(usize, Option<u64>)> },
    Query { w: usize, qi: usize, mode: u8, split: usize, write: bool, targets: Vec<IdP>, interleave_at: usize, fresh: u64, uniform: u64 },
    EntryQuery { w: usize, qi: usize, id: IdP, write: bool, fresh: u64, uniform: u64 },
    Reserve { w: usize, shape: u32, order: u8, n: usize },
    Shrink { w: usize },
    Clone { w: usize, dst: usize },
    CloneFrom { src: usize, dst: usize },
    Serde { w: usize, carrier: u8, dst: usize, mirror: usize },
    Eq { a: usize, b: usize },
    ResSet { w: usize, r: usize, val: u64 },
    ResView { w: usize, vi: usize, write: bool, fresh: u64, uniform: u64 },
    Debug { w: usize },
    /// kind: 0 = par_query (+ consumer), 1 = run_par_system, 2 = run_system
    Par { w: usize, qi: usize, kind: u8, consumer: u8, pool: usize, write: bool, targets: Vec<IdP>, fresh: u64, uniform: u64, jitter: u64, stop_at: usize },
}

impl Op {
    pub fn kind(&self) -> &'static str {
        match self {
            Op::NewWorld { .. } => "NewWorld",
            Op::DropWorld { .. } => "DropWorld",
            Op::Insert { .. } => "Insert",
            Op::Extend { .. } => "Extend",
            Op::Remove { .. } => "Remove",
            Op::Clear { .. } => "Clear",
            Op::EntryAdd { .. } => "EntryAdd",
            Op::EntryRemove { .. } => "EntryRemove",
            Op::EntryMulti { .. } => "EntryMulti",
            Op::Query { .. } => "Query",
            Op::EntryQuery { .. } => "EntryQuery",
            Op::Reserve { .. } => "Reserve",
            Op::Shrink { .. } => "ShrinkToFit",
            Op::Clone { .. } => "Clone",
            Op::CloneFrom { .. } => "CloneFrom",
            Op::Serde { .. } => "SerdeRoundTrip",
            Op::Eq { .. } => "Eq",
            Op::ResSet { .. } => "ResSet",
            Op::ResView { .. } => "ResView",
            Op::Debug { .. } => "DebugFmt",
            Op::Par { kind: 0, .. } => "ParQuery",
            Op::Par { kind: 1, .. } => "RunParSystem",
            Op::Par { .. } => "RunSystem",
        }
    }
    /// The world slot the op primarily acts on.
    fn target(&self) -> Option<usize> {
        Some(match *self {
            Op::NewWorld { w, .. } | Op::DropWorld { w } | Op::Insert { w, .. } | Op::Extend { w, .. } | Op::Remove { w, .. } | Op::Clear { w } => w,
            Op::EntryAdd { w, .. } | Op::EntryRemove { w, .. } | Op::EntryMulti { w, .. } | Op::Query { w, .. } | Op::EntryQuery { w, .. } => w,
            Op::Reserve { w, .. } | Op::Shrink { w } | Op::ResSet { w, .. } | Op::ResView { w, .. } | Op::Debug { w } | Op::Par { w, .. } => w,
            Op::Clone { .. } | Op::CloneFrom { .. } | Op::Serde { .. } | Op::Eq { .. } => return None,
        })
    }
    fn retarget(&self, nw: usize) -> Op {
        let mut o = self.clone();
        match &mut o {
            Op::NewWorld { w, .. } | Op::DropWorld { w } | Op::Insert { w, .. } | Op::Extend { w, .. } | Op::Remove { w, .. } | Op::Clear { w } => *w = nw,
            Op::EntryAdd { w, .. } | Op::EntryRemove { w, .. } | Op::EntryMulti { w, .. } | Op::Query { w, .. } | Op::EntryQuery { w, .. } => *w = nw,
            Op::Reserve { w, .. } | Op::Shrink { w } | Op::ResSet { w, .. } | Op::ResView { w, .. } | Op::Debug { w } | Op::Par { w, .. } => *w = nw,
            _ => {}
        }
        o
    }
}

#[derive(Clone, Debug, Serialize, Deserialize)]
pub struct Viol {
    pub prop: String,
    pub sig: String,
    pub detail: String,
    pub op_index: usize,
    pub op: String,
}

/// What an op returned (compared between mirrored worlds).
#[derive(Clone, Debug, PartialEq, Eq, Default)]
pub struct OpOut {
    pub ids: Vec<IdP>,
    pub flag: Option<bool>,
}

pub struct Slot<G: ParRig> {
    pub world: W<G>,
    pub model: Model,
    /// While > 0, ops applied to this world are also applied to world `mirror.0` and results
    /// compared (lock-step after a serde round trip, C06).
    pub mirror: Option<(usize, usize)>,
    pub origin: &'static str,
    /// Signature of the last audit failure reported for this world (reported once per change).
    pub last_audit: Option<&'static str>,
    /// Kinds of the ops applied in lock-step since the round trip that created the pairing.
    pub mirror_kinds: Vec<&'static str>,
}

#[derive(Clone, Debug, Default, Serialize, Deserialize)]
pub struct Stats {
    pub ops: u64,
    pub by_kind: BTreeMap<String, u64>,
    pub snapshots: u64,
    pub snapshot_rows: u64,
    pub id_probes: u64,
    pub stale_probes: u64,
    pub stale_removes: u64,
    pub never_issued_probes: u64,
    pub slot_reuses: u64,
    pub ids_issued: u64,
    pub max_generation: u64,
    pub shape_changes: u64,
    pub overwrites: u64,
    pub audits: u64,
    pub max_archetypes: u64,
    pub max_free: u64,
    pub empty_archetype_audits: u64,
    pub dup_foreign_key_notes: u64,
    pub queries: u64,
    pub query_items: u64,
    pub query_writes: u64,
    pub query_hints: u64,
    pub query_unresolved: u64,
    pub entry_subs_some: u64,
    pub entry_subs_none: u64,
    pub entry_missing: u64,
    pub distinct_queries: BTreeSet<usize>,
    pub iter_modes: BTreeMap<String, u64>,
    pub serde_roundtrips: BTreeMap<String, u64>,
    pub serde_bytes: u64,
    pub mirrored_ops: u64,
    pub clones: u64,
    pub clone_froms: u64,
    pub eq_checks: u64,
    pub eq_true: u64,
    pub eq_false: u64,
    pub res_reads: u64,
    pub res_writes: u64,
    pub ledger_checks: u64,
    pub values_born: u64,
    pub values_died: u64,
    pub world_drops: u64,
    pub alloc_scope_checks: u64,
    pub histories: u64,
    pub shapes_inserted: BTreeSet<u32>,
    pub extend_rows: BTreeSet<usize>,
    pub batch_vs_free: BTreeMap<String, u64>,
    pub signatures: BTreeSet<String>,
    pub pool_sizes: BTreeMap<String, u64>,
    pub par_threads_max: u64,
    pub par_items: u64,
    pub distinct_par_queries: BTreeSet<usize>,
    pub known_hits: BTreeMap<String, u64>,
}

#[derive(Clone, Debug)]
pub struct Profile {
    pub name: &'static str,
    /// weights in the order of `KINDS` below
    pub weights: [u32; 21],
    pub max_entities: usize,
    pub snapshot_every: usize,
}

pub const KINDS: [&str; 21] = [
    "NewWorld", "DropWorld", "Insert", "Extend", "Remove", "Clear", "EntryAdd", "EntryRemove", "EntryMulti", "Query", "EntryQuery", "Reserve", "Shrink", "Clone", "CloneFrom", "Serde",
    "Eq", "ResSet", "ResView", "Debug", "Par",
];

pub fn profile(name: &str) -> Profile {
    //                 NW DW Ins Ext Rem Clr EAd ERm EMu Qry EQy Rsv Shr Cln ClF Ser Eq RSt RVw Dbg
    let general = [2, 1, 30, 14, 22, 1, 14, 9, 4, 12, 6, 3, 3, 2, 2, 3, 2, 2, 2, 1, 0];
    match name {
        "aba" => Profile { name: "aba", weights: [1, 1, 30, 22, 40, 3, 6, 4, 1, 4, 2, 1, 2, 2, 2, 4, 1, 0, 0, 0, 0], max_entities: 10, snapshot_every: 1 },
        "query" => Profile { name: "query", weights: [1, 1, 20, 10, 10, 1, 10, 8, 2, 50, 20, 1, 2, 1, 1, 1, 0, 1, 2, 0, 0], max_entities: 40, snapshot_every: 1 },
        "churn" => Profile { name: "churn", weights: [3, 3, 20, 10, 14, 3, 24, 20, 8, 6, 3, 2, 3, 4, 8, 5, 1, 3, 2, 1, 0], max_entities: 30, snapshot_every: 1 },
        "mem" => Profile { name: "mem", weights: [2, 2, 20, 22, 18, 3, 12, 10, 4, 14, 6, 10, 10, 3, 4, 3, 1, 1, 2, 1, 0], max_entities: 120, snapshot_every: 4 },
        "serde" => Profile { name: "serde", weights: [2, 1, 22, 16, 22, 2, 10, 8, 2, 5, 2, 1, 3, 2, 2, 24, 3, 3, 1, 0, 0], max_entities: 24, snapshot_every: 1 },
        "clone" => Profile { name: "clone", weights: [3, 2, 22, 12, 16, 2, 10, 8, 2, 5, 2, 2, 4, 14, 18, 3, 4, 3, 1, 0, 0], max_entities: 24, snapshot_every: 1 },
        "res" => Profile { name: "res", weights: [3, 2, 14, 8, 10, 1, 8, 6, 2, 14, 3, 1, 2, 5, 5, 6, 3, 22, 22, 1, 0], max_entities: 16, snapshot_every: 1 },
        "eq" => Profile { name: "eq", weights: [4, 2, 20, 10, 14, 1, 10, 8, 10, 8, 2, 1, 4, 10, 8, 6, 40, 6, 2, 0, 0], max_entities: 12, snapshot_every: 1 },
        "par" => Profile { name: "par", weights: [1, 1, 16, 10, 8, 1, 8, 6, 2, 6, 2, 1, 2, 1, 1, 1, 0, 1, 1, 0, 60], max_entities: 60, snapshot_every: 1 },
        _ => Profile { name: "general", weights: general, max_entities: 48, snapshot_every: 1 },
    }
}

pub struct Hist<G: ParRig> {
    pub slots: Vec<Option<Slot<G>>>,
    pub rng: Rng,
    pub profile: Profile,
    pub next_val: u64,
    pub stats: Stats,
    pub viols: Vec<Viol>,
    pub oplog: Vec<Op>,
    sink_seen: u64,
    /// Last reported (live - held) discrepancy per component / resource, so that one lost or
    /// early-dropped value is reported once, at the op where it happened.
    ledger_disc: Vec<i64>,
    ledger_base: Vec<i64>,
    pub heavy_checks: bool,
    /// A rayon pool was used: worker threads keep caches, so the end-of-history allocation balance
    /// is not checked for this history.
    pub used_pool: bool,
    /// Run the whole-world oracles (audit, snapshot, id probes) only every n-th op (Miri tier).
    pub check_every: u64,
    /// Signature parts of this history.
    sig_arch: u64,
    sig_free: u64,
    sig_reuse: u64,
    sig_moves: u64,
    sig_kinds: BTreeSet<&'static str>,
}

pub const MAX_VIOLS: usize = 40;

impl<G: ParRig> Hist<G> {
    pub fn new(seed: u64, profile: Profile) -> Self {
        let mut slots = Vec::new();
        for _ in 0..POOL {
            slots.push(None);
        }
        Hist {
            slots,
            rng: Rng::new(seed),
            profile,
            next_val: 0x1000,
            stats: Stats::default(),
            viols: Vec::new(),
            oplog: Vec::new(),
            sink_seen: sink::count(),
            ledger_disc: vec![0; G::N + G::NRES],
            ledger_base: G::TAGS.iter().chain(G::RES_TAGS.iter()).map(|t| ledger::type_live(*t)).collect(),
            heavy_checks: true,
            used_pool: false,
            check_every: 1,
            sig_arch: 0,
            sig_free: 0,
            sig_reuse: 0,
            sig_moves: 0,
            sig_kinds: BTreeSet::new(),
        }
    }

    /// Put an existing world (with a model describing it) into slot 0 of a fresh history.
    pub fn adopt(&mut self, world: W<G>, model: Model, origin: &'static str) {
        for k in 0..G::N {
            self.ledger_base[k] -= model.count_comp(k) as i64;
        }
        for r in 0..G::NRES {
            self.ledger_base[G::N + r] -= 1;
        }
        let top = model.ents.values().flatten().flatten().copied().max().unwrap_or(0).max(model.res.iter().copied().max().unwrap_or(0));
        self.next_val = self.next_val.max(top + 1);
        self.slots[0] = Some(Slot { world, model, mirror: None, origin, last_audit: None, mirror_kinds: Vec::new() });
    }

    fn val(&mut self) -> u64 {
        self.next_val += 1;
        self.next_val
    }

    fn viol(&mut self, prop: &str, sig: &str, detail: String, op: &Op) {
        if self.viols.len() < MAX_VIOLS {
            self.viols.push(Viol {
                prop: prop.to_string(),
                sig: sig.to_string(),
                detail,
                op_index: self.oplog.len().saturating_sub(1),
                op: format!("{:?}", op),
            });
        }
    }

    fn live_slots(&self) -> Vec<usize> {
        (0..POOL).filter(|&i| self.slots[i].is_some()).collect()
    }

    // ------------------------------------------------------------------ op generation

    fn pick_shape(&mut self) -> (u32, u8) {
        let (s, orders) = *self.rng.pick(G::SHAPES);
        (s, self.rng.below(orders as usize) as u8)
    }

    fn pick_live_id(&mut self, w: usize) -> Option<IdP> {
        let m = &self.slots[w].as_ref()?.model;
        if m.ents.is_empty() {
            return None;
        }
        let n = self.rng.below(m.ents.len());
        m.ents.keys().nth(n).copied()
    }

    fn pick_stale_id(&mut self, w: usize) -> Option<IdP> {
        let m = &self.slots[w].as_ref()?.model;
        let dead: Vec<IdP> = m.issued.iter().filter(|(_, live)| !**live).map(|(k, _)| *k).collect();
        if dead.is_empty() {
            return None;
        }
        Some(dead[self.rng.below(dead.len())])
    }

    fn pick_never_issued(&mut self, w: usize) -> IdP {
        let m = &self.slots[w].as_ref().unwrap().model;
        let max_idx = m.issued.keys().map(|k| k.0).max().map_or(0, |m| m + 1);
        loop {
            let c = self.rng.below(4);
            let cand = match c {
                0 => (max_idx + self.rng.below(3), self.rng.below(3) as u64),
                1 => (self.rng.below(max_idx + 1), 1 + self.rng.below(50) as u64 + m.issued.keys().map(|k| k.1).max().unwrap_or(0)),
                2 => (usize::MAX - self.rng.below(2), self.rng.below(2) as u64),
                _ => (self.rng.below(max_idx + 1), u64::MAX - self.rng.below(2) as u64),
            };
            if !m.issued.contains_key(&cand) {
                return cand;
            }
        }
    }

    /// Any id: mostly live, sometimes stale, sometimes never issued.
    fn pick_any_id(&mut self, w: usize) -> IdP {
        let c = self.rng.below(10);
        if c < 7 {
            if let Some(id) = self.pick_live_id(w) {
                return id;
            }
        }
        if c < 9 {
            if let Some(id) = self.pick_stale_id(w) {
                return id;
            }
        }
        self.pick_never_issued(w)
    }

    fn row_vals(&mut self) -> Vec<u64> {
        (0..G::N).map(|_| self.val()).collect()
    }

    pub fn gen_op(&mut self) -> Op {
        let live = self.live_slots();
        if live.is_empty() {
            let res: Vec<u64> = (0..G::NRES).map(|_| self.val()).collect();
            return Op::NewWorld { w: 0, res };
        }
        loop {
            let ki = self.rng.weighted(&self.profile.weights);
            let w = *self.rng.pick(&live);
            let nents = self.slots[w].as_ref().unwrap().model.len();
            let free_len = {
                let m = &self.slots[w].as_ref().unwrap().model;
                let mut idx: Vec<usize> = m.issued.keys().map(|k| k.0).collect();
                idx.dedup();
                idx.len().saturating_sub(m.len())
            };
            match KINDS[ki] {
                "NewWorld" => {
                    if let Some(e) = (0..POOL).find(|&i| self.slots[i].is_none()) {
                        let res: Vec<u64> = (0..G::NRES).map(|_| self.val()).collect();
                        return Op::NewWorld { w: e, res };
                    }
                }
                "DropWorld" => {
                    if live.len() > 1 {
                        return Op::DropWorld { w };
                    }
                }
                "Insert" => {
                    if nents < self.profile.max_entities {
                        let (shape, order) = self.pick_shape();
                        let vals = self.row_vals();
                        return Op::Insert { w, shape, order, vals };
                    }
                }
                "Extend" => {
                    if nents < self.profile.max_entities + 8 {
                        let (shape, order) = self.pick_shape();
                        // batch sizes around the free-list length and a few fixed ones
                        let c = self.rng.below(12);
                        let n = match c {
                            0 => 0,
                            1 => 1,
                            2 => 2,
                            3 => 3,
                            4 => 5,
                            5 => 17,
                            6 => free_len,
                            7 => free_len + 1,
                            8 => free_len.saturating_sub(1),
                            9 => free_len + 3,
                            10 => free_len / 2,
                            _ => {
                                if self.profile.max_entities > 60 {
                                    64
                                } else {
                                    4
                                }
                            }
                        };
                        let n = n.min(70);
                        let rows: Vec<Vec<u64>> = (0..n).map(|_| self.row_vals()).collect();
                        let slack = *self.rng.pick(&[0usize, 0, 1, 3, 7, 64]);
                        let form = if self.rng.chance(1, 4) { 1 } else { 0 };
                        return Op::Extend { w, shape, order, rows, slack, form };
                    }
                }
                "Remove" => {
                    let id = self.pick_any_id(w);
                    return Op::Remove { w, id };
                }
                "Clear" => return Op::Clear { w },
                "EntryAdd" => {
                    if G::N > 0 {
                        let id = self.pick_any_id(w);
                        let k = self.rng.below(G::N);
                        let val = self.val();
                        return Op::EntryAdd { w, id, k, val };
                    }
                }
                "EntryRemove" => {
                    if G::N > 0 {
                        let id = self.pick_any_id(w);
                        let k = self.rng.below(G::N);
                        return Op::EntryRemove { w, id, k };
                    }
                }
                "EntryMulti" => {
                    if G::N > 0 && self.rng.chance(1, 4) {
                        // detour: add a component the entity lacks and take it away again through
                        // one handle; the entity ends where it started, the world keeps an extra
                        // (now empty) archetype. Pairs of such worlds feed the == checks.
                        if let Some(id) = self.pick_live_id(w) {
                            let comps = self.slots[w].as_ref().unwrap().model.ents[&id].clone();
                            let absent: Vec<usize> = (0..G::N).filter(|k| comps[*k].is_none()).collect();
                            if !absent.is_empty() {
                                let k = absent[self.rng.below(absent.len())];
                                let v = self.val();
                                return Op::EntryMulti { w, id, steps: vec![(k, Some(v)), (k, None)] };
                            }
                        }
                    }
                    if G::N > 0 {
                        let id = self.pick_any_id(w);
                        let n = 2 + self.rng.below(4);
                        let steps = (0..n)
                            .map(|_| {
                                let k = self.rng.below(G::N);
                                if self.rng.chance(3, 5) {
                                    (k, Some(self.val()))
                                } else {
                                    (k, None)
                                }
                            })
                            .collect();
                        return Op::EntryMulti { w, id, steps };
                    }
                }
                "Query" => {
                    let qi = self.rng.below(G::QUERIES.len());
                    let (mode, split) = match self.rng.below(8) {
                        0..=3 => (0u8, 0),
                        4 | 5 => (1, 0),
                        6 => (2, self.rng.below(nents + 2)),
                        _ => (3, 0),
                    };
                    let write = self.rng.chance(3, 4);
                    let nt = self.rng.below(5);
                    let targets: Vec<IdP> = (0..nt).map(|_| self.pick_any_id(w)).collect();
                    let interleave_at = if self.rng.chance(1, 2) { self.rng.below(nents + 1) } else { usize::MAX };
                    let fresh = self.next_val + 1;
                    self.next_val += 1 + ((nents as u64 + 8) * (G::N as u64 + 2) * 4);
                    let uniform = self.val();
                    return Op::Query { w, qi, mode, split, write, targets, interleave_at, fresh, uniform };
                }
                "EntryQuery" => {
                    let qi = self.rng.below(G::QUERIES.len());
                    let id = self.pick_any_id(w);
                    let write = self.rng.chance(3, 4);
                    let fresh = self.next_val + 1;
                    self.next_val += 1 + (G::N as u64 + 2) * 2;
                    let uniform = self.val();
                    return Op::EntryQuery { w, qi, id, write, fresh, uniform };
                }
                "Reserve" => {
                    let (shape, order) = self.pick_shape();
                    let n = *self.rng.pick(&[0usize, 1, 2, 7, 33, 200]);
                    return Op::Reserve { w, shape, order, n };
                }
                "Shrink" => return Op::Shrink { w },
                "Clone" => {
                    let dst = self.rng.below(POOL);
                    if dst != w {
                        return Op::Clone { w, dst };
                    }
                }
                "CloneFrom" => {
                    let dst = self.rng.below(POOL);
                    if dst != w && self.slots[dst].is_some() {
                        return Op::CloneFrom { src: w, dst };
                    }
                }
                "Serde" => {
                    let dst = self.rng.below(POOL);
                    if dst != w {
                        let carrier = self.rng.below(3) as u8;
                        let mirror = if self.rng.chance(2, 3) { 4 + self.rng.below(24) } else { 0 };
                        return Op::Serde { w, carrier, dst, mirror };
                    }
                }
                "Eq" => {
                    let b = *self.rng.pick(&live);
                    return Op::Eq { a: w, b };
                }
                "ResSet" => {
                    if G::NRES > 0 {
                        let r = self.rng.below(G::NRES);
                        let val = self.val();
                        return Op::ResSet { w, r, val };
                    }
                }
                "ResView" => {
                    let vi = self.rng.below(G::RES_VIEWS.len());
                    let write = self.rng.chance(2, 3);
                    let fresh = self.next_val + 1;
                    self.next_val += 2 + G::NRES as u64;
                    let uniform = self.val();
                    return Op::ResView { w, vi, write, fresh, uniform };
                }
                "Debug" => return Op::Debug { w },
                "Par" => {
                    if G::NPAR > 0 {
                        let qi = self.rng.below(G::NPAR);
                        let kind = *self.rng.pick(&[0u8, 0, 0, 1, 1, 2]);
                        let consumer = self.rng.below(CONSUMERS.len()) as u8;
                        let pool = self.rng.below(crate::par::POOL_SIZES.len());
                        // an early-stopping consumer leaves it open which entities were written
                        let write = self.rng.chance(3, 4) && !(kind == 0 && CONSUMERS[consumer as usize] == Consumer::FindAny);
                        let nt = self.rng.below(4);
                        let targets: Vec<IdP> = (0..nt).map(|_| self.pick_any_id(w)).collect();
                        let fresh = self.next_val + 1;
                        self.next_val += 1 + ((nents as u64 + 8) * (G::N as u64 + 2) * 4);
                        let uniform = self.val();
                        let jitter = *self.rng.pick(&[0u64, 0, 1, 3, 7]);
                        let stop_at = 1 + self.rng.below(nents + 1);
                        return Op::Par { w, qi, kind, consumer, pool, write, targets, fresh, uniform, jitter, stop_at };
                    }
                }
                _ => {}
            }
        }
    }

    // ------------------------------------------------------------------ execution

    /// Execute one op (and its mirror, if any) with all oracles. Returns false when the history
    /// should stop (too many violations or a poisoned state).
    pub fn step(&mut self, op: Op) -> bool {
        self.oplog.push(op.clone());
        self.stats.ops += 1;
        *self.stats.by_kind.entry(op.kind().to_string()).or_insert(0) += 1;
        self.sig_kinds.insert(op.kind());
        // an op that mutates a world directly ends any lock-step pairing it is the copy of; an op
        // that replaces / overwrites a world ends every pairing that world takes part in
        match op {
            Op::Clone { dst, .. } | Op::CloneFrom { dst, .. } | Op::Serde { dst, .. } => {
                for i in 0..POOL {
                    if let Some(s) = self.slots[i].as_mut() {
                        if let Some((m, _)) = s.mirror {
                            if m == dst || i == dst {
                                s.mirror = None;
                            }
                        }
                    }
                }
            }
            _ => {
                if let Some(x) = op.target() {
                    for i in 0..POOL {
                        if let Some(s) = self.slots[i].as_mut() {
                            if let Some((m, _)) = s.mirror {
                                if m == x {
                                    s.mirror = None;
                                }
                            }
                        }
                    }
                }
            }
        }
        let out = match catch_unwind(AssertUnwindSafe(|| self.apply(&op))) {
            Ok(o) => o,
            Err(e) => {
                let msg = panic_msg(&e);
                self.viol(prop_for_op(&op), "panic", format!("panic while executing {:?}: {}", op.kind(), msg), &op);
                return false;
            }
        };
        // mirrored execution (C06 lock-step)
        if let Some(w) = op.target() {
            let mirror = self.slots[w].as_ref().and_then(|s| s.mirror);
            if let Some((m, left)) = mirror {
                if matches!(op, Op::DropWorld { .. } | Op::NewWorld { .. }) || self.slots[m].is_none() {
                    if let Some(s) = self.slots[w].as_mut() {
                        s.mirror = None;
                    }
                } else {
                    let mop = op.retarget(m);
                    self.stats.mirrored_ops += 1;
                    // the copy is about to change without *its* copies (if any) following
                    if let Some(ms) = self.slots[m].as_mut() {
                        ms.mirror = None;
                    }
                    match catch_unwind(AssertUnwindSafe(|| self.apply(&mop))) {
                        Ok(mo) => {
                            let kinds = {
                                let s = self.slots[w].as_mut().unwrap();
                                s.mirror_kinds.push(op.kind());
                                s.mirror_kinds.clone()
                            };
                            if mo != out {
                                let (mut a, mut b) = (out.ids.clone(), mo.ids.clone());
                                a.sort();
                                b.sort();
                                // `clear()` releases identifiers in table iteration order, which a
                                // round trip does not preserve: same identifiers, other order.
                                let _ = (a, b);
                                let sig = if kinds.contains(&"Clear") {
                                    "lockstep_id_order_after_clear"
                                } else {
                                    "lockstep_divergence"
                                };
                                self.viol(
                                    "C06",
                                    sig,
                                    format!("after a serde round trip the copy diverged from the original under the same op: original returned {:?}, copy returned {:?}; ops applied in lock-step since the round trip: {:?}", out, mo, kinds),
                                    &op,
                                );
                            }
                        }
                        Err(e) => {
                            let msg = panic_msg(&e);
                            self.viol("C06", "panic", format!("panic in the deserialized copy while executing {:?}: {}", mop.kind(), msg), &op);
                            return false;
                        }
                    }
                    if let Some(s) = self.slots[w].as_mut() {
                        s.mirror = if left > 1 { Some((m, left - 1)) } else { None };
                    }
                    self.after_op(&mop, m);
                }
            }
        }
        // generic post-op oracles on every touched world
        match op {
            Op::Clone { w, dst } | Op::Serde { w, dst, .. } => {
                self.after_op(&op, w);
                self.after_op(&op, dst);
            }
            Op::CloneFrom { src, dst } => {
                self.after_op(&op, src);
                self.after_op(&op, dst);
            }
            Op::Eq { a, b } => {
                self.after_op(&op, a);
                if a != b {
                    self.after_op(&op, b);
                }
            }
            _ => {
                if let Some(w) = op.target() {
                    self.after_op(&op, w);
                }
            }
        }
        self.check_sink(&op);
        self.check_ledger(&op);
        self.viols.len() < MAX_VIOLS && !self.viols.iter().any(|v| v.sig == "panic")
    }

    fn check_sink(&mut self, op: &Op) {
        let c = sink::count();
        if c != self.sink_seen {
            self.sink_seen = c;
            for e in sink::drain() {
                let prop = match e.kind {
                    "double_drop" | "unknown_drop" => "C04",
                    "tracker_inconsistency" => "HARNESS",
                    _ => "C05",
                };
                self.viol(prop, e.kind, e.detail, op);
            }
        }
    }

    /// Conservation: per payload type, constructed - destructed == values held by all worlds.
    fn check_ledger(&mut self, op: &Op) {
        self.stats.ledger_checks += 1;
        for k in 0..G::N {
            let held: i64 = self.slots.iter().flatten().map(|s| s.model.count_comp(k)).sum::<usize>() as i64;
            let live = ledger::type_live(G::TAGS[k]) - self.ledger_base[k];
            let disc = live - held;
            if disc != self.ledger_disc[k] {
                let grew = disc > self.ledger_disc[k];
                self.ledger_disc[k] = disc;
                let sig = format!("{}@{}", if grew { "value_not_dropped" } else { "value_dropped_early_or_twice" }, op.kind());
                self.viol(
                    "C04",
                    &sig,
                    format!("component {k} (type K{}): {} values constructed and not yet dropped, but the worlds hold {}", G::TAGS[k], live, held),
                    op,
                );
            }
        }
        let nworlds = self.slots.iter().flatten().count() as i64;
        for r in 0..G::NRES {
            let live = ledger::type_live(G::RES_TAGS[r]) - self.ledger_base[G::N + r];
            let disc = live - nworlds;
            if disc != self.ledger_disc[G::N + r] {
                let grew = disc > self.ledger_disc[G::N + r];
                self.ledger_disc[G::N + r] = disc;
                let sig = format!("{}@{}", if grew { "resource_not_dropped" } else { "resource_dropped_early_or_twice" }, op.kind());
                self.viol("C04", &sig, format!("resource {r} (type K{}): {} live values for {} worlds", G::RES_TAGS[r], live, nworlds), op);
            }
        }
    }

    /// Oracles run on world `w` after `op`.
    fn after_op(&mut self, op: &Op, w: usize) {
        if self.slots[w].is_none() {
            return;
        }
        if self.check_every > 1 && self.stats.ops % self.check_every != 0 && !is_structural(op) {
            return;
        }
        let nents = self.slots[w].as_ref().unwrap().model.len();
        // len / is_empty
        {
            let s = self.slots[w].as_ref().unwrap();
            let (l, e) = (s.world.len(), s.world.is_empty());
            if l != nents || e != (nents == 0) {
                self.viol("C01", "len_mismatch", format!("len() = {l}, is_empty() = {e}, model holds {nents} entities"), op);
            }
        }
        // structural audit (C13)
        {
            let d = self.slots[w].as_ref().unwrap().world.verif_dump();
            self.stats.audits += 1;
            self.stats.max_archetypes = self.stats.max_archetypes.max(d.archetypes.len() as u64);
            self.stats.max_free = self.stats.max_free.max(d.free.len() as u64);
            self.sig_arch = self.sig_arch.max(d.archetypes.len() as u64);
            self.sig_free = self.sig_free.max(d.free.len() as u64);
            match audit::audit(&d) {
                Ok(st) => {
                    if st.empty_archetypes > 0 {
                        self.stats.empty_archetype_audits += 1;
                    }
                    self.stats.dup_foreign_key_notes += st.dup_foreign_keys as u64;
                }
                Err(e) => {
                    let sig = audit_sig(&e);
                    let s = self.slots[w].as_mut().unwrap();
                    if s.last_audit != Some(sig) {
                        s.last_audit = Some(sig);
                        self.viol("C13", sig, e, op);
                    }
                }
            }
        }
        // snapshot
        let do_snapshot = nents <= 64 || self.stats.ops % (self.profile.snapshot_every.max(8) as u64) == 0 || is_structural(op);
        if do_snapshot && (self.stats.ops % self.profile.snapshot_every as u64 == 0 || is_structural(op) || nents <= 64) {
            let s = self.slots[w].as_mut().unwrap();
            let rows = G::snapshot(&mut s.world);
            self.stats.snapshots += 1;
            self.stats.snapshot_rows += rows.len() as u64;
            if let Err(e) = s.model.compare_snapshot(&rows) {
                self.viol("C01", "snapshot_mismatch", e, op);
            }
        }
        // identifier probes (C02 / C13): contains() for every id ever issued (sampled when many)
        {
            let s = self.slots[w].as_mut().unwrap();
            let all: Vec<(IdP, bool)> = s.model.issued.iter().map(|(k, v)| (*k, *v)).collect();
            let stride = if all.len() > 400 { 1 + all.len() / 200 } else { 1 };
            let off = if stride > 1 { self.rng.below(stride) } else { 0 };
            let mut bad: Option<(String, String)> = None;
            let mut i = off;
            while i < all.len() {
                let (p, live) = all[i];
                self.stats.id_probes += 1;
                if !live {
                    self.stats.stale_probes += 1;
                }
                let c = s.world.contains(ident(p));
                if c != live && bad.is_none() {
                    bad = Some(if live {
                        ("live_id_lost".to_string(), format!("contains({p:?}) is false for a live entity"))
                    } else {
                        ("stale_id_resolves".to_string(), format!("contains({p:?}) is true for an identifier whose entity was removed"))
                    });
                }
                i += stride;
            }
            // entry() on a sample, comparing the resolved entity's values
            if self.heavy_checks && !all.is_empty() {
                for _ in 0..3 {
                    let (p, live) = all[self.rng.below(all.len())];
                    let row = G::entry_snapshot(&mut s.world, ident(p));
                    match (row, live) {
                        (None, false) => {}
                        (Some((rid, comps)), true) => {
                            if parts(rid) != p {
                                bad.get_or_insert(("entry_wrong_entity".to_string(), format!("entry({p:?}) yielded identifier {:?}", parts(rid))));
                            } else if let Err(e) = model::cmp_row(p, &s.model.ents[&p], &comps) {
                                bad.get_or_insert(("entry_wrong_entity".to_string(), format!("entry({p:?}) resolves to other data: {e}")));
                            }
                        }
                        (None, true) => {
                            bad.get_or_insert(("live_id_lost".to_string(), format!("entry({p:?}) is None for a live entity")));
                        }
                        (Some(_), false) => {
                            bad.get_or_insert(("stale_id_resolves".to_string(), format!("entry({p:?}) is Some for a removed entity")));
                        }
                    }
                }
                // never-issued probe
                let p = {
                    let max_idx = all.iter().map(|a| a.0 .0).max().unwrap_or(0);
                    (max_idx + 1 + self.rng.below(3), self.rng.below(2) as u64)
                };
                self.stats.never_issued_probes += 1;
                if s.world.contains(ident(p)) {
                    bad.get_or_insert(("unissued_id_resolves".to_string(), format!("contains({p:?}) is true for an identifier that was never issued")));
                }
            }
            if let Some((sig, msg)) = bad {
                self.viol("C02", &sig, msg, op);
            }
        }
        // resources (C15): unchanged unless the op was a resource write
        {
            let s = self.slots[w].as_ref().unwrap();
            let obs = G::res_get(&s.world);
            self.stats.res_reads += obs.len() as u64;
            for (r, o) in obs.iter().enumerate() {
                if o.val != s.model.res[r] {
                    let msg = format!("resource {r}: get() shows {:#x}, model has {:#x}", o.val, s.model.res[r]);
                    self.viol("C15", "resource_mismatch", msg, op);
                    break;
                }
            }
        }
    }

    fn new_slot(&mut self, w: usize, world: W<G>, model: Model, origin: &'static str) {
        // dropping whatever was there
        if let Some(old) = self.slots[w].take() {
            drop(old);
            self.stats.world_drops += 1;
        }
        self.slots[w] = Some(Slot { world, model, mirror: None, origin, last_audit: None, mirror_kinds: Vec::new() });
    }

    fn apply(&mut self, op: &Op) -> OpOut {
        let mut out = OpOut::default();
        match op {
            Op::NewWorld { w, res } => {
                let world = G::new_world(res);
                let nres: Vec<u64> = res.clone();
                self.new_slot(*w, world, Model::new(G::N, nres), "new");
            }
            Op::DropWorld { w } => {
                if let Some(s) = self.slots[*w].take() {
                    drop(s);
                    self.stats.world_drops += 1;
                }
            }
            Op::Insert { w, shape, order, vals } => {
                let s = self.slots[*w].as_mut().unwrap();
                let id = G::insert(&mut s.world, *shape, *order, vals);
                let p = parts(id);
                out.ids.push(p);
                self.stats.shapes_inserted.insert(*shape);
                let comps: Vec<Option<u64>> = (0..G::N).map(|k| if shape >> k & 1 == 1 { Some(G::norm(k, vals[k])) } else { None }).collect();
                self.note_issue(*w, &[p]);
                let s = self.slots[*w].as_mut().unwrap();
                if let Err(e) = s.model.issue(p, comps) {
                    self.viol("C02", "id_reissued", e, op);
                }
            }
            Op::Extend { w, shape, order, rows, slack, form } => {
                let s = self.slots[*w].as_mut().unwrap();
                let free_before = s.world.verif_dump().free.len();
                let ids = G::extend(&mut s.world, *shape, *order, rows, *slack, *form);
                let ps: Vec<IdP> = ids.iter().map(|i| parts(*i)).collect();
                out.ids = ps.clone();
                self.stats.extend_rows.insert(rows.len());
                let rel = if rows.is_empty() {
                    "zero_rows"
                } else if free_before == 0 {
                    "free_list_empty"
                } else if rows.len() < free_before {
                    "batch_smaller_than_free"
                } else if rows.len() == free_before {
                    "batch_equals_free"
                } else {
                    "batch_larger_than_free"
                };
                *self.stats.batch_vs_free.entry(rel.to_string()).or_insert(0) += 1;
                if ps.len() != rows.len() {
                    if *shape == 0 && ps.is_empty() {
                        // component-less batch rows: tracked as a specific signature
                        self.viol("C01", "extend_empty_shape_rows_dropped", format!("extend of {} component-less rows returned {} identifiers and stored nothing", rows.len(), ps.len()), op);
                    } else {
                        self.viol("C01", "extend_id_count", format!("extend of {} rows returned {} identifiers", rows.len(), ps.len()), op);
                    }
                }
                self.note_issue(*w, &ps);
                let mut errs = Vec::new();
                let s = self.slots[*w].as_mut().unwrap();
                for (ri, p) in ps.iter().enumerate() {
                    if ri >= rows.len() {
                        break;
                    }
                    let comps: Vec<Option<u64>> = (0..G::N).map(|k| if shape >> k & 1 == 1 { Some(G::norm(k, rows[ri][k])) } else { None }).collect();
                    if let Err(e) = s.model.issue(*p, comps) {
                        errs.push(e);
                    }
                }
                for e in errs {
                    self.viol("C02", "id_reissued", e, op);
                }
            }
            Op::Remove { w, id } => {
                let s = self.slots[*w].as_mut().unwrap();
                let was_live = s.model.ents.contains_key(id);
                s.world.remove(ident(*id));
                if was_live {
                    s.model.kill(*id);
                } else {
                    self.stats.stale_removes += 1;
                }
                out.flag = Some(was_live);
            }
            Op::Clear { w } => {
                let s = self.slots[*w].as_mut().unwrap();
                s.world.clear();
                s.model.clear();
            }
            Op::EntryAdd { w, id, k, val } => {
                let s = self.slots[*w].as_mut().unwrap();
                let found = G::entry_add(&mut s.world, ident(*id), *k, *val);
                out.flag = Some(found);
                let live = s.model.ents.contains_key(id);
                if found != live {
                    let msg = format!("entry({id:?}) was {} but the entity is {}", if found { "Some" } else { "None" }, if live { "live" } else { "not live" });
                    self.viol("C02", if found { "stale_id_resolves" } else { "live_id_lost" }, msg, op);
                }
                let s = self.slots[*w].as_mut().unwrap();
                if found && live {
                    let c = s.model.ents.get_mut(id).unwrap();
                    if c[*k].is_some() {
                        self.stats.overwrites += 1;
                    } else {
                        self.stats.shape_changes += 1;
                        self.sig_moves += 1;
                    }
                    c[*k] = Some(G::norm(*k, *val));
                } else if found && !live {
                    // a stale id resolved; the value went somewhere. Already reported.
                }
            }
            Op::EntryRemove { w, id, k } => {
                let s = self.slots[*w].as_mut().unwrap();
                let found = G::entry_remove(&mut s.world, ident(*id), *k);
                out.flag = Some(found);
                let live = s.model.ents.contains_key(id);
                if found != live {
                    let msg = format!("entry({id:?}) was {} but the entity is {}", if found { "Some" } else { "None" }, if live { "live" } else { "not live" });
                    self.viol("C02", if found { "stale_id_resolves" } else { "live_id_lost" }, msg, op);
                }
                let s = self.slots[*w].as_mut().unwrap();
                if found && live {
                    let c = s.model.ents.get_mut(id).unwrap();
                    if c[*k].is_some() {
                        self.stats.shape_changes += 1;
                        self.sig_moves += 1;
                    }
                    c[*k] = None;
                }
            }
            Op::EntryMulti { w, id, steps } => {
                let s = self.slots[*w].as_mut().unwrap();
                let found = G::entry_multi(&mut s.world, ident(*id), steps);
                out.flag = Some(found);
                let live = s.model.ents.contains_key(id);
                if found != live {
                    let msg = format!("entry({id:?}) was {} but the entity is {}", if found { "Some" } else { "None" }, if live { "live" } else { "not live" });
                    self.viol("C02", if found { "stale_id_resolves" } else { "live_id_lost" }, msg, op);
                }
                let s = self.slots[*w].as_mut().unwrap();
                if found && live {
                    let c = s.model.ents.get_mut(id).unwrap();
                    for (k, v) in steps {
                        match v {
                            Some(val) => {
                                if c[*k].is_none() {
                                    self.stats.shape_changes += 1;
                                } else {
                                    self.stats.overwrites += 1;
                                }
                                c[*k] = Some(G::norm(*k, *val));
                            }
                            None => {
                                if c[*k].is_some() {
                                    self.stats.shape_changes += 1;
                                }
                                c[*k] = None;
                            }
                        }
                    }
                    self.sig_moves += 1;
                }
            }
            Op::Query { w, qi, mode, split, write, targets, interleave_at, fresh, uniform } => {
                let m = match mode {
                    0 => IterMode::Next,
                    1 => IterMode::Fold,
                    2 => IterMode::Mixed(*split),
                    _ => IterMode::Skip,
                };
                let mut cx = QCtx::new(m, *write, *fresh, *uniform);
                cx.entry_targets = targets.iter().map(|p| ident(*p)).collect();
                cx.interleave_at = *interleave_at;
                let s = self.slots[*w].as_mut().unwrap();
                G::run_query(&mut s.world, *qi, &mut cx);
                let d = &G::QUERIES[*qi];
                self.stats.queries += 1;
                self.stats.distinct_queries.insert(*qi);
                *self.stats.iter_modes.entry(format!("{:?}", m).split('(').next().unwrap().to_string()).or_insert(0) += 1;
                match model::check_query::<G>(&mut s.model, d, &cx, targets) {
                    Ok(st) => {
                        self.stats.query_items += st.items as u64;
                        self.stats.query_writes += st.writes as u64;
                        self.stats.query_hints += st.hints as u64;
                        self.stats.query_unresolved += st.unresolved as u64;
                        self.stats.entry_subs_some += st.subs_some as u64;
                        self.stats.entry_subs_none += st.subs_none as u64;
                        self.stats.entry_missing += st.entry_missing as u64;
                        out.ids = cx.items.iter().filter_map(|i| i.id.map(parts)).collect();
                        out.ids.sort();
                    }
                    Err(e) => {
                        let (prop, sig) = classify_query_err(&e);
                        self.viol(prop, sig, format!("query {} [{:?}]: {}", d.name, d, e), op);
                    }
                }
            }
            Op::EntryQuery { w, qi, id, write, fresh, uniform } => {
                let mut cx = QCtx::new(IterMode::Next, *write, *fresh, *uniform);
                let s = self.slots[*w].as_mut().unwrap();
                let found = G::run_entry_query(&mut s.world, *qi, ident(*id), &mut cx);
                out.flag = Some(found);
                let d = &G::QUERIES[*qi];
                self.stats.queries += 1;
                let live = s.model.ents.contains_key(id);
                if found != live {
                    let msg = format!("entry({id:?}) was {} but the entity is {}", if found { "Some" } else { "None" }, if live { "live" } else { "not live" });
                    self.viol("C02", if found { "stale_id_resolves" } else { "live_id_lost" }, msg, op);
                } else if found {
                    let mut st = model::QStats::default();
                    let mc = s.model.ents.get_mut(id).unwrap();
                    let item = cx.subs.first().and_then(|so| so.item.as_ref());
                    match model::check_sub::<G>(d.name, *id, d.views, &d.filter, item, mc, &mut st) {
                        Ok(()) => {
                            self.stats.entry_subs_some += st.subs_some as u64;
                            self.stats.entry_subs_none += st.subs_none as u64;
                            self.stats.query_writes += st.writes as u64;
                        }
                        Err(e) => {
                            self.viol("C03", "entry_query_mismatch", format!("World::entry query {} [{:?}]: {}", d.name, d, e), op);
                        }
                    }
                }
            }
            Op::Reserve { w, shape, order, n } => {
                let s = self.slots[*w].as_mut().unwrap();
                G::reserve(&mut s.world, *shape, *order, *n);
            }
            Op::Shrink { w } => {
                let s = self.slots[*w].as_mut().unwrap();
                s.world.shrink_to_fit();
            }
            Op::Clone { w, dst } => {
                let s = self.slots[*w].as_ref().unwrap();
                let copy = s.world.clone();
                let model = s.model.clone();
                self.stats.clones += 1;
                let eq_ab = copy == s.world;
                let eq_ba = s.world == copy;
                if !eq_ab || !eq_ba {
                    self.viol("C10", "clone_not_equal", format!("clone() != source (clone==src: {eq_ab}, src==clone: {eq_ba})"), op);
                    self.viol("C16", "clone_not_equal", format!("a clone does not compare equal to its source (clone==src: {eq_ab}, src==clone: {eq_ba})"), op);
                }
                self.new_slot(*dst, copy, model, "clone");
                self.check_independent(*w, *dst, op);
            }
            Op::CloneFrom { src, dst } => {
                let (a, b) = two_mut(&mut self.slots, *src, *dst);
                let (sa, sb) = (a.as_ref().unwrap(), b.as_mut().unwrap());
                sb.world.clone_from(&sa.world);
                sb.model = sa.model.clone();
                sb.mirror = None;
                sb.origin = "clone_from";
                self.stats.clone_froms += 1;
                self.check_independent(*src, *dst, op);
            }
            Op::Serde { w, carrier, dst, mirror } => {
                let s = self.slots[*w].as_ref().unwrap();
                let name = ["json", "tokens_readable", "tokens_compact"][*carrier as usize];
                match roundtrip::<G>(&s.world, *carrier) {
                    Ok((copy, nbytes)) => {
                        *self.stats.serde_roundtrips.entry(name.to_string()).or_insert(0) += 1;
                        self.stats.serde_bytes += nbytes as u64;
                        let eq_ab = copy == s.world;
                        let eq_ba = s.world == copy;
                        let model = s.model.clone();
                        // dumps equal modulo addresses / table order
                        let d1 = norm_dump(&s.world.verif_dump());
                        let d2 = norm_dump(&copy.verif_dump());
                        if !eq_ab || !eq_ba {
                            self.viol("C06", "roundtrip_not_equal", format!("{name}: deserialized world != original (copy==orig: {eq_ab}, orig==copy: {eq_ba})"), op);
                            self.viol("C16", "roundtrip_not_equal", format!("{name}: a serde round trip does not compare equal to the original"), op);
                        }
                        if d1 != d2 {
                            self.viol("C06", "roundtrip_structure_differs", format!("{name}: allocator/table structure differs after round trip:\n orig {:?}\n copy {:?}", d1, d2), op);
                        }
                        self.new_slot(*dst, copy, model, "serde");
                        if *mirror > 0 {
                            self.slots[*w].as_mut().unwrap().mirror_kinds.clear();
                            self.slots[*w].as_mut().unwrap().mirror = Some((*dst, *mirror));
                        }
                    }
                    Err(e) => {
                        let sig = if e.contains("missing entity index") { "roundtrip_fails_missing_entity_index" } else { "roundtrip_fails" };
                        self.viol("C06", sig, format!("{name}: {e}"), op);
                    }
                }
            }
            Op::Eq { a, b } => {
                let (sa, sb) = (self.slots[*a].as_ref().unwrap(), self.slots[*b].as_ref().unwrap());
                let ab = sa.world == sb.world;
                let ba = sb.world == sa.world;
                self.stats.eq_checks += 1;
                if ab {
                    self.stats.eq_true += 1;
                } else {
                    self.stats.eq_false += 1;
                }
                out.flag = Some(ab);
                let same = sa.model.ents == sb.model.ents && sa.model.res == sb.model.res;
                let res_differ = sa.model.res != sb.model.res;
                if ab != ba {
                    self.viol("C16", "eq_not_symmetric", format!("a==b is {ab} but b==a is {ba}"), op);
                }
                if a == b && !ab {
                    self.viol("C16", "eq_not_reflexive", "a world does not compare equal to itself".to_string(), op);
                }
                if ab && !same {
                    let what = if res_differ { "resources differ" } else { "entities differ" };
                    self.viol("C16", "eq_unsound", format!("worlds compare equal although their contents differ ({what})"), op);
                }
            }
            Op::ResSet { w, r, val } => {
                let s = self.slots[*w].as_mut().unwrap();
                let old = G::res_set(&mut s.world, *r, *val);
                self.stats.res_writes += 1;
                let expect = s.model.res[*r];
                s.model.res[*r] = *val;
                if old.val != expect {
                    self.viol("C15", "resource_mismatch", format!("get_mut::<resource {r}>() shows {:#x}, model has {:#x}", old.val, expect), op);
                }
            }
            Op::ResView { w, vi, write, fresh, uniform } => {
                let mut cx = QCtx::new(IterMode::Skip, *write, *fresh, *uniform);
                let s = self.slots[*w].as_mut().unwrap();
                G::res_view(&mut s.world, *vi, &mut cx);
                let mut err = None;
                for &(r, o, new, _) in &cx.res {
                    self.stats.res_reads += 1;
                    if o.val != s.model.res[r] {
                        err.get_or_insert(format!("view_resources (list {vi}): resource {r} shows {:#x}, model has {:#x}", o.val, s.model.res[r]));
                    }
                    if let Some(nv) = new {
                        s.model.res[r] = nv;
                        self.stats.res_writes += 1;
                    }
                }
                if let Some(e) = err {
                    self.viol("C15", "resource_mismatch", e, op);
                }
            }
            Op::Par { w, qi, kind, consumer, pool, write, targets, fresh, uniform, jitter, stop_at } => {
                self.used_pool = true;
                let consumer = CONSUMERS[*consumer as usize];
                let pcx = ParCtx::new(*write, *fresh, *uniform, *jitter, *stop_at);
                let half = {
                    let m = &self.slots[*w].as_ref().unwrap().model;
                    ((m.len() as u64 + 8) * (G::N as u64 + 2) * 2).max(1)
                };
                let mut qcx = QCtx::new(if *kind == 2 { IterMode::Fold } else { IterMode::Skip }, *write, *fresh + half, *uniform);
                qcx.entry_targets = targets.iter().map(|p| ident(*p)).collect();
                let s = self.slots[*w].as_mut().unwrap();
                let world = &mut s.world;
                let mut counted = 0usize;
                crate::par::pool(*pool).install(|| match kind {
                    0 => counted = G::run_par_query(world, *qi, &pcx, &mut qcx, consumer),
                    1 => G::run_par_system(world, *qi, &pcx, &mut qcx),
                    _ => G::run_system(world, *qi, &mut qcx),
                });
                let d = &G::QUERIES[*qi];
                if *kind != 2 {
                    qcx.items = pcx.take_items();
                    qcx.mode = IterMode::Fold;
                    if *kind == 0 {
                        match consumer {
                            Consumer::Count => {
                                qcx.mode = IterMode::Skip;
                                qcx.counted = Some(counted);
                            }
                            Consumer::FindAny => qcx.subset = true,
                            _ => {}
                        }
                    }
                }
                self.stats.queries += 1;
                *self.stats.iter_modes.entry(format!("{}:{:?}", op.kind(), consumer)).or_insert(0) += 1;
                *self.stats.pool_sizes.entry(crate::par::POOL_SIZES[*pool].to_string()).or_insert(0) += 1;
                self.stats.par_threads_max = self.stats.par_threads_max.max(pcx.threads_seen() as u64);
                self.stats.par_items += qcx.items.len() as u64;
                self.stats.distinct_par_queries.insert(*qi);
                match model::check_query::<G>(&mut s.model, d, &qcx, targets) {
                    Ok(st) => {
                        self.stats.query_items += st.items as u64;
                        self.stats.query_writes += st.writes as u64;
                        self.stats.entry_subs_some += st.subs_some as u64;
                        self.stats.entry_subs_none += st.subs_none as u64;
                    }
                    Err(e) => {
                        let (prop, sig) = classify_query_err(&e);
                        let prop = if prop == "C03" && *kind != 2 { "C09" } else { prop };
                        self.viol(prop, sig, format!("{} {} consumer={:?} pool={} [{:?}]: {}", op.kind(), d.name, consumer, crate::par::POOL_SIZES[*pool], d, e), op);
                    }
                }
            }
            Op::Debug { w } => {
                let s = self.slots[*w].as_ref().unwrap();
                let txt = format!("{:?}", s.world);
                out.flag = Some(txt.is_empty());
            }
        }
        out
    }

    fn note_issue(&mut self, w: usize, ps: &[IdP]) {
        let s = self.slots[w].as_ref().unwrap();
        for p in ps {
            self.stats.ids_issued += 1;
            if p.1 > 0 {
                self.stats.slot_reuses += 1;
                self.sig_reuse += 1;
            }
            self.stats.max_generation = self.stats.max_generation.max(p.1);
            // same index issued before with another generation must be dead
            let _ = s;
        }
    }

    /// After clone / clone_from: the copy must hold the source's entities, identifiers, values and
    /// resources (C10), checked here so that it is charged to C10 rather than to the generic
    /// post-op oracles; and the dumps must not share any address (independence).
    fn check_independent(&mut self, a: usize, b: usize, op: &Op) {
        {
            let sb = self.slots[b].as_mut().unwrap();
            let rows = G::snapshot(&mut sb.world);
            let mut errs: Vec<(&'static str, String)> = Vec::new();
            if let Err(e) = sb.model.compare_snapshot(&rows) {
                errs.push(("clone_content_differs", format!("the copy does not hold the source's entities / values: {e}")));
            }
            if sb.world.len() != sb.model.len() {
                errs.push(("clone_content_differs", format!("the copy's len() is {} but the source holds {} entities", sb.world.len(), sb.model.len())));
            }
            let ids: Vec<(IdP, bool)> = sb.model.issued.iter().map(|(k, v)| (*k, *v)).collect();
            for (p, live) in ids.iter().take(600) {
                if sb.world.contains(ident(*p)) != *live {
                    errs.push((
                        "clone_identifiers_differ",
                        if *live { format!("identifier {p:?} is live in the source but not accepted by the copy") } else { format!("identifier {p:?} is dead in the source but accepted by the copy") },
                    ));
                    break;
                }
            }
            let res = G::res_get(&sb.world);
            for (r, o) in res.iter().enumerate() {
                if o.val != sb.model.res[r] {
                    errs.push(("clone_resources_differ", format!("resource {r} of the copy is {:#x}, the source has {:#x}", o.val, sb.model.res[r])));
                    break;
                }
            }
            for (sig, msg) in errs {
                self.viol("C10", sig, msg, op);
            }
        }
        let (da, db) = (self.slots[a].as_ref().unwrap().world.verif_dump(), self.slots[b].as_ref().unwrap().world.verif_dump());
        let addrs = |d: &brood::verif::Dump| -> BTreeSet<usize> {
            let mut s = BTreeSet::new();
            for a in &d.archetypes {
                if a.identifier_address >= 4096 {
                    s.insert(a.identifier_address);
                }
                for (p, cap) in &a.columns {
                    // zero-capacity and zero-sized columns hold dangling (alignment-valued) pointers
                    if *cap > 0 && *p >= 4096 {
                        s.insert(*p);
                    }
                }
            }
            s
        };
        let (sa, sb) = (addrs(&da), addrs(&db));
        if let Some(x) = sa.intersection(&sb).next() {
            self.viol("C10", "clone_shares_memory", format!("source and copy both refer to allocation {:#x}", x), op);
        }
        if norm_dump(&da).1 != norm_dump(&db).1 {
            // archetype content (identifier bytes -> sorted ids) must agree for non-empty tables
            self.viol("C10", "clone_content_differs", "source and copy store different entity identifiers per table".to_string(), op);
        }
    }

    /// Close the history: drop all worlds and check quiescence (ledger + allocator).
    pub fn finish(&mut self) {
        let op = Op::DropWorld { w: 0 };
        for i in 0..POOL {
            if let Some(s) = self.slots[i].take() {
                let r = catch_unwind(AssertUnwindSafe(|| drop(s)));
                self.stats.world_drops += 1;
                if let Err(e) = r {
                    self.viol("C05", "panic", format!("panic while dropping a world: {}", panic_msg(&e)), &op);
                }
            }
        }
        self.check_sink(&op);
        self.check_ledger(&op);
        let sig = format!(
            "kinds={} arch={} free={} reuse={} moves={}",
            self.sig_kinds.len(),
            self.sig_arch,
            bucket(self.sig_free),
            bucket(self.sig_reuse),
            bucket(self.sig_moves)
        );
        let nontrivial = self.sig_reuse > 0 && self.sig_moves > 0 && self.sig_kinds.contains("Remove");
        if nontrivial {
            self.stats.signatures.insert(sig);
        }
        self.stats.histories += 1;
        self.stats.values_born = ledger::born_total();
        self.stats.values_died = ledger::died_total();
    }
}

fn bucket(x: u64) -> u64 {
    if x < 4 {
        x
    } else {
        64 - (x.leading_zeros() as u64) + 2
    }
}

fn is_structural(op: &Op) -> bool {
    matches!(op, Op::Clone { .. } | Op::CloneFrom { .. } | Op::Serde { .. } | Op::Shrink { .. } | Op::Clear { .. } | Op::Extend { .. })
}

fn prop_for_op(op: &Op) -> &'static str {
    match op {
        Op::Serde { .. } => "C06",
        Op::Clone { .. } | Op::CloneFrom { .. } => "C10",
        Op::Query { .. } | Op::EntryQuery { .. } => "C03",
        Op::Par { .. } => "C09",
        Op::Eq { .. } => "C16",
        Op::ResSet { .. } | Op::ResView { .. } => "C15",
        _ => "C01",
    }
}

fn classify_query_err(e: &str) -> (&'static str, &'static str) {
    if e.starts_with("#res") {
        ("C15", "resource_view_mismatch")
    } else if e.starts_with("#id") {
        ("C02", "entries_entry_mismatch")
    } else if e.contains("size_hint") {
        ("C03", "size_hint")
    } else if e.contains("same address") {
        ("C03", "aliasing_results")
    } else {
        ("C03", "query_mismatch")
    }
}

fn audit_sig(e: &str) -> &'static str {
    if e.contains("inactive but not in the free list") {
        "slot_lost"
    } else if e.contains("split over two tables") {
        "duplicate_archetype"
    } else if e.contains("free list") {
        "free_list_corrupt"
    } else if e.contains("len()") {
        "len_mismatch"
    } else if e.contains("lookup") {
        "lookup_corrupt"
    } else {
        "index_storage_mismatch"
    }
}

pub fn panic_msg(e: &Box<dyn std::any::Any + Send>) -> String {
    if let Some(s) = e.downcast_ref::<&str>() {
        s.to_string()
    } else if let Some(s) = e.downcast_ref::<String>() {
        s.clone()
    } else if e.downcast_ref::<crate::fuse::FusePanic>().is_some() {
        "injected fuse panic".to_string()
    } else {
        "<non-string panic payload>".to_string()
    }
}

fn two_mut<T>(v: &mut [T], a: usize, b: usize) -> (&mut T, &mut T) {
    assert!(a != b);
    if a < b {
        let (x, y) = v.split_at_mut(b);
        (&mut x[a], &mut y[0])
    } else {
        let (x, y) = v.split_at_mut(a);
        (&mut y[0], &mut x[b])
    }
}

/// Address-free view of a dump: (slots as (generation, active), free list, per non-empty
/// archetype: identifier bytes -> ordered ids, len).
#[allow(clippy::type_complexity)]
pub fn norm_dump(d: &brood::verif::Dump) -> (Vec<(u64, bool)>, BTreeMap<Vec<u8>, Vec<(usize, u64)>>, Vec<usize>, usize) {
    let slots = d.slots.iter().map(|s| (s.generation, s.location.is_some())).collect();
    let mut arch = BTreeMap::new();
    for a in &d.archetypes {
        if a.length > 0 {
            let mut ids = a.entity_identifiers.clone();
            ids.sort();
            arch.insert(a.identifier_bytes.clone(), ids);
        }
    }
    (slots, arch, d.free.clone(), d.len)
}

/// Serialize + deserialize through one of the carriers. Returns the copy and the encoded size.
pub fn roundtrip<G: ParRig>(world: &W<G>, carrier: u8) -> Result<(W<G>, usize), String> {
    match carrier {
        0 => {
            let text = serde_json::to_string(world).map_err(|e| format!("serialization failed: {e}"))?;
            let copy: W<G> = serde_json::from_str(&text).map_err(|e| format!("deserialization of the world's own output failed: {e}"))?;
            Ok((copy, text.len()))
        }
        c => {
            let readable = c == 1;
            let ser = serde_assert::Serializer::builder().is_human_readable(readable).build();
            let tokens = world.serialize(&ser).map_err(|e| format!("serialization failed: {e}"))?;
            let n = tokens.0.len();
            let mut de = serde_assert::Deserializer::builder().tokens(tokens).is_human_readable(readable).self_describing(false).build();
            let copy = <W<G>>::deserialize(&mut de).map_err(|e| format!("deserialization of the world's own output failed: {e}"))?;
            Ok((copy, n))
        }
    }
}

// ------------------------------------------------------------------------------------------
// Runner

#[derive(Clone, Debug, Serialize, Deserialize)]
pub struct Replay {
    pub rig: String,
    pub profile: String,
    pub seed: u64,
    pub ops: Vec<Op>,
    pub violations: Vec<Viol>,
}

#[derive(Clone, Debug, Serialize, Deserialize)]
pub struct RunReport {
    pub rig: String,
    pub profile: String,
    pub seed: u64,
    pub stats: Stats,
    pub violations: Vec<Viol>,
    pub replay: Option<Replay>,
    pub alloc_tracking: bool,
    pub samples: Vec<String>,
}

/// Run `body` on a fresh history inside a measured allocation window.
///
/// The history runs with allocation tracking on; everything it allocates (worlds, models, logs)
/// is dropped before the closing measurement, its outputs having been copied out under
/// `untracked`, so live bytes / blocks must be back at the opening values: "all memory obtained
/// for a world is returned when the world is dropped" (C05).
fn scoped<G: ParRig>(seed: u64, profile: &Profile, body: impl FnOnce(&mut Hist<G>)) -> (Vec<Viol>, Vec<Op>, Stats) {
    use crate::alloc::{tracked, untracked};
    tracked(|| {
        let base_bytes = crate::alloc::live_bytes();
        let base_blocks = crate::alloc::live_blocks();
        let mut h = Hist::<G>::new(seed, profile.clone());
        body(&mut h);
        h.finish();
        let used_pool = h.used_pool;
        let Hist { viols, oplog, stats: hstats, slots, rng, profile: p2, ledger_disc, ledger_base, sig_kinds, .. } = h;
        drop((slots, rng, p2, ledger_disc, ledger_base, sig_kinds));
        let mut copy = untracked(|| (viols.clone(), oplog.clone(), hstats.clone()));
        drop((viols, oplog, hstats));
        let (end_bytes, end_blocks) = (crate::alloc::live_bytes(), crate::alloc::live_blocks());
        if crate::alloc::enabled() && !used_pool {
            untracked(|| {
                copy.2.alloc_scope_checks += 1;
                if end_bytes != base_bytes || end_blocks != base_blocks {
                    if std::env::var("BVH_DEBUG_ALLOC").is_ok() {
                        eprintln!("live blocks: {:?}", crate::alloc::live_table());
                    }
                    copy.0.push(Viol {
                        prop: "C05".into(),
                        sig: if end_bytes > base_bytes { "memory_not_returned".into() } else { "memory_accounting_negative".into() },
                        detail: format!(
                            "after dropping every world of the history {} bytes in {} blocks are still allocated (before: {} / {})",
                            end_bytes - base_bytes,
                            end_blocks - base_blocks,
                            base_bytes,
                            base_blocks
                        ),
                        op_index: copy.1.len().saturating_sub(1),
                        op: "end of history".into(),
                    });
                }
            });
        }
        copy
    })
}

/// Run one history of `nops` generated ops. Returns (violations, oplog).
pub fn run_history<G: ParRig>(seed: u64, profile: &Profile, nops: usize, check_every: u64, stats: &mut Stats) -> (Vec<Viol>, Vec<Op>) {
    let (viols, oplog, hstats) = scoped::<G>(seed, profile, |h| {
        h.check_every = check_every.max(1);
        for _ in 0..nops {
            let op = h.gen_op();
            if !h.step(op) {
                break;
            }
        }
    });
    merge_stats(stats, &hstats);
    (viols, oplog)
}

/// Re-execute a concrete op list.
pub fn run_ops<G: ParRig>(ops: &[Op], profile: &Profile) -> Vec<Viol> {
    let (viols, _, _) = scoped::<G>(0, profile, |h| {
        for op in ops {
            if !op_applicable(h, op) {
                continue;
            }
            if !h.step(op.clone()) {
                break;
            }
        }
    });
    viols
}

/// An op from a (shrunk) list is skipped when the world slots it needs do not exist.
fn op_applicable<G: ParRig>(h: &Hist<G>, op: &Op) -> bool {
    let has = |i: usize| i < POOL && h.slots[i].is_some();
    match *op {
        Op::NewWorld { w, .. } => w < POOL,
        Op::Clone { w, dst } | Op::Serde { w, dst, .. } => has(w) && dst < POOL && dst != w,
        Op::CloneFrom { src, dst } => has(src) && has(dst) && src != dst,
        Op::Eq { a, b } => has(a) && has(b),
        _ => op.target().map_or(false, has),
    }
}

pub fn merge_stats(a: &mut Stats, b: &Stats) {
    macro_rules! add { ($($f:ident),*) => { $( a.$f += b.$f; )* } }
    macro_rules! maxf { ($($f:ident),*) => { $( a.$f = a.$f.max(b.$f); )* } }
    macro_rules! mapadd { ($($f:ident),*) => { $( for (k, v) in &b.$f { *a.$f.entry(k.clone()).or_insert(0) += *v; } )* } }
    macro_rules! setadd { ($($f:ident),*) => { $( for k in &b.$f { a.$f.insert(k.clone()); } )* } }
    add!(ops, snapshots, snapshot_rows, id_probes, stale_probes, stale_removes, never_issued_probes, slot_reuses, ids_issued, shape_changes, overwrites, audits,
        empty_archetype_audits, dup_foreign_key_notes, queries, query_items, query_writes, query_hints, query_unresolved, entry_subs_some, entry_subs_none, entry_missing,
        serde_bytes, mirrored_ops, clones, clone_froms, eq_checks, eq_true, eq_false, res_reads, res_writes, ledger_checks, world_drops, alloc_scope_checks, histories);
    maxf!(max_generation, max_archetypes, max_free, values_born, values_died, par_threads_max);
    add!(par_items);
    mapadd!(by_kind, iter_modes, serde_roundtrips, batch_vs_free, known_hits, pool_sizes);
    setadd!(distinct_queries, shapes_inserted, extend_rows, signatures, distinct_par_queries);
}

/// Bounded delta debugging over the op list: keep removing chunks while the same
/// (property, signature) is still reported.
pub fn shrink<G: ParRig>(ops: &[Op], profile: &Profile, prop: &str, sig: &str, budget: usize) -> Vec<Op> {
    let fails = |cand: &[Op]| -> bool {
        let v = match catch_unwind(AssertUnwindSafe(|| run_ops::<G>(cand, profile))) {
            Ok(v) => v,
            Err(_) => return false,
        };
        v.iter().any(|x| x.prop == prop && x.sig == sig)
    };
    let mut cur: Vec<Op> = ops.to_vec();
    let mut tries = 0usize;
    let mut chunk = (cur.len() / 2).max(1);
    while chunk >= 1 && tries < budget {
        let mut i = 0;
        let mut progressed = false;
        while i < cur.len() && tries < budget {
            let end = (i + chunk).min(cur.len());
            let mut cand = cur.clone();
            cand.drain(i..end);
            tries += 1;
            if !cand.is_empty() && fails(&cand) {
                cur = cand;
                progressed = true;
            } else {
                i = end;
            }
        }
        if chunk == 1 && !progressed {
            break;
        }
        if !progressed || chunk > 1 {
            chunk = if chunk > 1 { chunk / 2 } else { 1 };
        }
    }
    cur
}
