//! Hostile-input monitor (C11): deserialize mutated serializations of real worlds.
//!
//! Every input is obtained from a valid serialization (serde_json text, serde_assert tokens in
//! readable and compact mode) of a world grown by the sequential-history generator, by deleting,
//! duplicating, swapping or altering tokens / JSON nodes. Declared lengths and other numbers are
//! kept below the input size, as the property's quantifier states.
//!
//! Oracle per input: no panic inside brood, no sink event (double drop, bad payload, allocator
//! audit), and on `Ok` the world must pass the structural audit, resolve every stored identifier
//! one-to-one, and survive a follow-up history under all sequential oracles, then drop cleanly.
//! Values constructed by a failed deserialization must all be dropped again (reported under C04).

use crate::audit;
use crate::ledger;
use crate::model::Model;
use crate::prng::Rng;
use crate::rig::{parts, ParRig, W};
use crate::seq::{self, Hist, Viol};
use crate::sink;
use serde::{Deserialize as _, Serialize as _};
use serde_assert::Token;
use serde_json::Value;
use std::cell::RefCell;
use std::collections::{BTreeMap, BTreeSet};
use std::panic::{catch_unwind, AssertUnwindSafe};

thread_local! {
    static LAST_PANIC: RefCell<String> = const { RefCell::new(String::new()) };
}

pub fn install_panic_recorder() {
    std::panic::set_hook(Box::new(|info| {
        let loc = info.location().map(|l| format!("{}:{}", l.file(), l.line())).unwrap_or_default();
        let msg = if let Some(s) = info.payload().downcast_ref::<&str>() {
            s.to_string()
        } else if let Some(s) = info.payload().downcast_ref::<String>() {
            s.clone()
        } else {
            String::new()
        };
        if std::env::var("BVH_PANIC_VERBOSE").is_ok() {
            eprintln!("panic at {loc}: {msg}");
        }
        LAST_PANIC.with(|p| *p.borrow_mut() = format!("{loc}: {msg}"));
    }));
}

pub fn last_panic() -> String {
    LAST_PANIC.with(|p| p.borrow().clone())
}

#[derive(Clone, Debug, Default, serde_derive::Serialize, serde_derive::Deserialize)]
pub struct DeserStats {
    pub cases: u64,
    pub source_worlds: u64,
    pub by_carrier: BTreeMap<String, u64>,
    pub by_mutation: BTreeMap<String, u64>,
    pub outcome_err: u64,
    pub outcome_ok: u64,
    pub outcome_ok_equal_to_source: u64,
    pub outcome_carrier_panic: u64,
    pub ok_worlds_audited: u64,
    pub ok_followup_ops: u64,
    pub exhaustive_inputs: u64,
    pub exhaustive_sources: u64,
    pub err_messages_set: BTreeSet<String>,
    pub distinct: u64,
    pub values_built_in_failed: u64,
    pub mutator_panics: u64,
}

#[derive(Clone, Debug)]
pub enum Input {
    Json(String),
    Tokens(Vec<Token>, bool),
}

impl Input {
    fn carrier(&self) -> &'static str {
        match self {
            Input::Json(_) => "json",
            Input::Tokens(_, true) => "tokens_readable",
            Input::Tokens(_, false) => "tokens_compact",
        }
    }
    fn size(&self) -> usize {
        match self {
            Input::Json(s) => s.len(),
            Input::Tokens(t, _) => t.len(),
        }
    }
    fn describe(&self) -> String {
        match self {
            Input::Json(s) => s.clone(),
            Input::Tokens(t, hr) => format!("readable={hr} {:?}", t),
        }
    }
}

fn deserialize<G: ParRig>(input: &Input) -> Result<W<G>, String> {
    match input {
        Input::Json(s) => serde_json::from_str::<W<G>>(s).map_err(|e| e.to_string()),
        Input::Tokens(t, hr) => {
            let mut de = serde_assert::Deserializer::builder().tokens(serde_assert::Tokens(t.clone())).is_human_readable(*hr).self_describing(false).build();
            <W<G>>::deserialize(&mut de).map_err(|e| e.to_string())
        }
    }
}

pub fn serialize<G: ParRig>(w: &W<G>, carrier: u8) -> Input {
    match carrier {
        0 => Input::Json(serde_json::to_string(w).expect("serialize")),
        c => {
            let hr = c == 1;
            let ser = serde_assert::Serializer::builder().is_human_readable(hr).build();
            Input::Tokens(w.serialize(&ser).expect("serialize").0, hr)
        }
    }
}

// ------------------------------------------------------------------------------------------
// mutations

fn cap_num(rng: &mut Rng, v: u64, bound: u64, pool: &[u64]) -> (u64, &'static str) {
    let c = rng.below(8);
    let (nv, what) = match c {
        0 => (0, "num=0"),
        1 => (v.wrapping_add(1), "num+1"),
        2 => (v.saturating_sub(1), "num-1"),
        3 => (v.wrapping_mul(2), "num*2"),
        4 => (if pool.is_empty() { v + 2 } else { pool[rng.below(pool.len())] }, "num=other"),
        5 => (bound, "num=bound"),
        6 => (rng.below(bound as usize + 1) as u64, "num=random"),
        _ => (v ^ (1 << rng.below(8)), "num^bit"),
    };
    (nv.min(bound), what)
}

fn token_num(t: &Token) -> Option<u64> {
    Some(match t {
        Token::U8(v) => *v as u64,
        Token::U16(v) => *v as u64,
        Token::U32(v) => *v as u64,
        Token::U64(v) => *v,
        Token::Seq { len: Some(l) } => *l as u64,
        Token::Tuple { len } => *len as u64,
        Token::Struct { len, .. } => *len as u64,
        Token::Map { len: Some(l) } => *l as u64,
        _ => return None,
    })
}

fn token_with_num(t: &Token, v: u64) -> Token {
    match t {
        Token::U8(_) => Token::U8(v as u8),
        Token::U16(_) => Token::U16(v as u16),
        Token::U32(_) => Token::U32(v as u32),
        Token::U64(_) => Token::U64(v),
        Token::Seq { .. } => Token::Seq { len: Some(v as usize) },
        Token::Tuple { .. } => Token::Tuple { len: v as usize },
        Token::Struct { name, .. } => Token::Struct { name: *name, len: v as usize },
        Token::Map { .. } => Token::Map { len: Some(v as usize) },
        other => other.clone(),
    }
}

const FIELD_NAMES: [&str; 8] = ["index", "generation", "length", "free", "tag", "val", "chk", "bogus"];

/// Positions of `Struct { name: "Identifier" }` segments: (start, index value pos, generation value pos).
fn identifier_segments(toks: &[Token]) -> (Vec<(usize, usize, usize)>, Option<usize>) {
    let mut segs = Vec::new();
    let mut alloc_at = None;
    let mut i = 0;
    while i < toks.len() {
        match &toks[i] {
            Token::Struct { name: "Allocator", .. } => alloc_at = Some(i),
            Token::Struct { name: "Identifier", .. } => {
                if i + 5 < toks.len() && matches!(toks[i + 1], Token::Field("index")) && matches!(toks[i + 3], Token::Field("generation")) {
                    segs.push((i, i + 2, i + 4));
                }
            }
            _ => {}
        }
        i += 1;
    }
    (segs, alloc_at)
}

/// Coordinated alteration: give one stored row the identifier of another stored row and keep the
/// allocator's bookkeeping plausible by declaring the orphaned index free (or lowering the
/// declared length when it was the last index).
fn mutate_tokens_duplicate_id(rng: &mut Rng, toks: &mut Vec<Token>) -> &'static str {
    let (segs, alloc_at) = identifier_segments(toks);
    let Some(alloc_at) = alloc_at else { return "noop" };
    let rows: Vec<&(usize, usize, usize)> = segs.iter().filter(|s| s.0 < alloc_at).collect();
    if rows.len() < 2 {
        return "noop";
    }
    let a = *rows[rng.below(rows.len())];
    let b = *rows[rng.below(rows.len())];
    if a.0 == b.0 {
        return "noop";
    }
    let orphan = toks[b.1].clone();
    let orphan_gen = toks[b.2].clone();
    toks[b.1] = toks[a.1].clone();
    toks[b.2] = toks[a.2].clone();
    // fix-up
    let length_pos = (alloc_at..toks.len()).find(|&i| matches!(toks[i], Token::Field("length"))).map(|i| i + 1).filter(|&p| p < toks.len());
    let free_seq = (alloc_at..toks.len()).find(|&i| matches!(toks[i], Token::Seq { .. }));
    match (rng.below(3), length_pos, free_seq) {
        (0, Some(lp), _) => {
            if let Some(v) = token_num(&toks[lp]) {
                toks[lp] = token_with_num(&toks[lp], v.saturating_sub(1));
            }
            "dup_id+length-1"
        }
        (1, _, Some(fs)) => {
            if let Token::Seq { len: Some(l) } = toks[fs] {
                toks[fs] = Token::Seq { len: Some(l + 1) };
            }
            let seg = vec![Token::Struct { name: "Identifier", len: 2 }, Token::Field("index"), orphan, Token::Field("generation"), orphan_gen, Token::StructEnd];
            for (k, t) in seg.into_iter().enumerate() {
                toks.insert(fs + 1 + k, t);
            }
            "dup_id+orphan_freed"
        }
        _ => "dup_id",
    }
}

/// Add one more entry to the allocator's free list: an index at / just beyond the declared
/// length, the index of a stored entity, or a copy of an existing free entry.
fn mutate_tokens_free_extra(rng: &mut Rng, toks: &mut Vec<Token>) -> &'static str {
    let (segs, alloc_at) = identifier_segments(toks);
    let Some(alloc_at) = alloc_at else { return "noop" };
    let length = (alloc_at..toks.len()).find(|&i| matches!(toks[i], Token::Field("length"))).and_then(|i| toks.get(i + 1)).and_then(token_num);
    let Some(fs) = (alloc_at..toks.len()).find(|&i| matches!(toks[i], Token::Seq { .. })) else { return "noop" };
    let Some(length) = length else { return "noop" };
    let rows: Vec<u64> = segs.iter().filter(|s| s.0 < alloc_at).filter_map(|s| token_num(&toks[s.1])).collect();
    let frees: Vec<u64> = segs.iter().filter(|s| s.0 > alloc_at).filter_map(|s| token_num(&toks[s.1])).collect();
    let (index, what) = match rng.below(4) {
        0 => (length, "free+index=length"),
        1 => (length + 1, "free+index=length+1"),
        2 if !rows.is_empty() => (rows[rng.below(rows.len())], "free+index=active"),
        _ if !frees.is_empty() => (frees[rng.below(frees.len())], "free+index=duplicate"),
        _ => (length, "free+index=length"),
    };
    if let Token::Seq { len: Some(l) } = toks[fs] {
        toks[fs] = Token::Seq { len: Some(l + 1) };
    }
    let seg = vec![Token::Struct { name: "Identifier", len: 2 }, Token::Field("index"), Token::U64(index), Token::Field("generation"), Token::U64(rng.below(3) as u64), Token::StructEnd];
    for (k, t) in seg.into_iter().enumerate() {
        toks.insert(fs + 1 + k, t);
    }
    what
}

fn mutate_tokens(rng: &mut Rng, toks: &mut Vec<Token>) -> &'static str {
    if toks.is_empty() {
        return "noop";
    }
    if rng.chance(1, 12) {
        return mutate_tokens_duplicate_id(rng, toks);
    }
    if rng.chance(1, 14) {
        return mutate_tokens_free_extra(rng, toks);
    }
    let bound = (toks.len() as u64).max(16);
    let pool: Vec<u64> = toks.iter().filter_map(token_num).collect();
    match rng.below(10) {
        0 => {
            let i = rng.below(toks.len());
            toks.remove(i);
            "delete_token"
        }
        1 => {
            let i = rng.below(toks.len());
            let t = toks[i].clone();
            toks.insert(i, t);
            "duplicate_token"
        }
        2 => {
            let (i, j) = (rng.below(toks.len()), rng.below(toks.len()));
            toks.swap(i, j);
            "swap_tokens"
        }
        3 => {
            // delete a balanced-ish range
            let i = rng.below(toks.len());
            let n = 1 + rng.below(6.min(toks.len() - i));
            toks.drain(i..i + n);
            "delete_range"
        }
        4 => {
            // duplicate a range (e.g. a whole row / identifier / archetype)
            let i = rng.below(toks.len());
            let n = 1 + rng.below(12.min(toks.len() - i));
            let seg: Vec<Token> = toks[i..i + n].to_vec();
            let at = rng.below(toks.len() + 1);
            for (k, t) in seg.into_iter().enumerate() {
                toks.insert(at + k, t);
            }
            "duplicate_range"
        }
        5 => {
            let fields: Vec<usize> = toks.iter().enumerate().filter(|(_, t)| matches!(t, Token::Field(_))).map(|(i, _)| i).collect();
            if fields.is_empty() {
                return mutate_tokens(rng, toks);
            }
            let i = fields[rng.below(fields.len())];
            toks[i] = Token::Field(FIELD_NAMES[rng.below(FIELD_NAMES.len())]);
            "rename_field"
        }
        _ => {
            let nums: Vec<usize> = toks.iter().enumerate().filter(|(_, t)| token_num(t).is_some()).map(|(i, _)| i).collect();
            if nums.is_empty() {
                return mutate_tokens(rng, toks);
            }
            let i = nums[rng.below(nums.len())];
            let v = token_num(&toks[i]).unwrap();
            let (nv, what) = cap_num(rng, v, bound, &pool);
            toks[i] = token_with_num(&toks[i], nv);
            what
        }
    }
}

/// Paths to every node of a JSON value.
fn json_paths(v: &Value, cur: &mut Vec<usize>, out: &mut Vec<Vec<usize>>) {
    out.push(cur.clone());
    match v {
        Value::Array(a) => {
            for (i, x) in a.iter().enumerate() {
                cur.push(i);
                json_paths(x, cur, out);
                cur.pop();
            }
        }
        Value::Object(o) => {
            for (i, (_, x)) in o.iter().enumerate() {
                cur.push(i);
                json_paths(x, cur, out);
                cur.pop();
            }
        }
        _ => {}
    }
}

fn json_at<'a>(v: &'a mut Value, path: &[usize]) -> &'a mut Value {
    let mut cur = v;
    for &i in path {
        cur = match cur {
            Value::Array(a) => &mut a[i],
            Value::Object(o) => o.iter_mut().nth(i).unwrap().1,
            _ => unreachable!(),
        };
    }
    cur
}

fn json_numbers(v: &Value, out: &mut Vec<u64>) {
    match v {
        Value::Number(n) => {
            if let Some(u) = n.as_u64() {
                out.push(u)
            }
        }
        Value::Array(a) => a.iter().for_each(|x| json_numbers(x, out)),
        Value::Object(o) => o.values().for_each(|x| json_numbers(x, out)),
        _ => {}
    }
}

/// JSON (row-wise) counterpart of `mutate_tokens_duplicate_id`.
fn mutate_json_duplicate_id(rng: &mut Rng, root: &mut Value) -> &'static str {
    // world = [archetypes, allocator, resources]; archetype = [id bytes, length, rows]; row = [identifier, comps..]
    let mut rows: Vec<(usize, usize)> = Vec::new();
    if let Some(archs) = root.get(0).and_then(|a| a.as_array()) {
        for (ai, a) in archs.iter().enumerate() {
            if let Some(rs) = a.get(2).and_then(|r| r.as_array()) {
                for ri in 0..rs.len() {
                    rows.push((ai, ri));
                }
            }
        }
    }
    if rows.len() < 2 {
        return "noop";
    }
    let a = rows[rng.below(rows.len())];
    let b = rows[rng.below(rows.len())];
    if a == b {
        return "noop";
    }
    let ida = root[0][a.0][2][a.1][0].clone();
    let orphan = root[0][b.0][2][b.1][0].clone();
    if !ida.is_object() || !orphan.is_object() {
        return "noop";
    }
    root[0][b.0][2][b.1][0] = ida;
    // the allocator may already have been re-encoded by an earlier mutation of this input
    let alloc = match root.get_mut(1).and_then(|a| a.as_object_mut()) {
        Some(a) => a,
        None => return "dup_id",
    };
    match rng.below(3) {
        0 => {
            if let Some(l) = alloc.get("length").and_then(|l| l.as_u64()) {
                alloc.insert("length".into(), Value::from(l.saturating_sub(1)));
            }
            "dup_id+length-1"
        }
        1 => {
            if let Some(f) = alloc.get_mut("free").and_then(|f| f.as_array_mut()) {
                f.push(orphan);
            }
            "dup_id+orphan_freed"
        }
        _ => "dup_id",
    }
}

/// JSON counterpart of `mutate_tokens_free_extra`.
fn mutate_json_free_extra(rng: &mut Rng, root: &mut Value) -> &'static str {
    let mut rows: Vec<u64> = Vec::new();
    if let Some(archs) = root.get(0).and_then(|a| a.as_array()) {
        for a in archs {
            if let Some(rs) = a.get(2).and_then(|r| r.as_array()) {
                for r in rs {
                    if let Some(i) = r.get(0).and_then(|id| id.get("index")).and_then(|i| i.as_u64()) {
                        rows.push(i);
                    }
                }
            }
        }
    }
    let alloc = match root.get_mut(1).and_then(|a| a.as_object_mut()) {
        Some(a) => a,
        None => return "noop",
    };
    let Some(length) = alloc.get("length").and_then(|l| l.as_u64()) else { return "noop" };
    let frees: Vec<u64> = alloc.get("free").and_then(|f| f.as_array()).map(|f| f.iter().filter_map(|e| e.get("index").and_then(|i| i.as_u64())).collect()).unwrap_or_default();
    let (index, what) = match rng.below(4) {
        0 => (length, "free+index=length"),
        1 => (length + 1, "free+index=length+1"),
        2 if !rows.is_empty() => (rows[rng.below(rows.len())], "free+index=active"),
        _ if !frees.is_empty() => (frees[rng.below(frees.len())], "free+index=duplicate"),
        _ => (length, "free+index=length"),
    };
    let gen = rng.below(3) as u64;
    match alloc.get_mut("free").and_then(|f| f.as_array_mut()) {
        Some(f) => {
            let at = rng.below(f.len() + 1);
            f.insert(at, serde_json::json!({"index": index, "generation": gen}));
            what
        }
        None => "noop",
    }
}

fn mutate_json(rng: &mut Rng, root: &mut Value, bound: u64) -> &'static str {
    if rng.chance(1, 12) {
        return mutate_json_duplicate_id(rng, root);
    }
    if rng.chance(1, 14) {
        return mutate_json_free_extra(rng, root);
    }
    let mut paths = Vec::new();
    json_paths(root, &mut Vec::new(), &mut paths);
    let mut pool = Vec::new();
    json_numbers(root, &mut pool);
    for _ in 0..20 {
        let path = paths[rng.below(paths.len())].clone();
        let c = rng.below(10);
        let node = json_at(root, &path);
        match (c, node) {
            (0, Value::Array(a)) if !a.is_empty() => {
                let i = rng.below(a.len());
                a.remove(i);
                return "delete_element";
            }
            (1, Value::Array(a)) if !a.is_empty() => {
                let i = rng.below(a.len());
                let x = a[i].clone();
                a.insert(rng.below(a.len() + 1), x);
                return "duplicate_element";
            }
            (2, Value::Array(a)) if a.len() > 1 => {
                let (i, j) = (rng.below(a.len()), rng.below(a.len()));
                a.swap(i, j);
                return "swap_elements";
            }
            (3, Value::Object(o)) if !o.is_empty() => {
                // rename / drop / duplicate-as-other-name a field
                let keys: Vec<String> = o.keys().cloned().collect();
                let k = keys[rng.below(keys.len())].clone();
                let val = o.remove(&k).unwrap();
                if rng.chance(2, 3) {
                    o.insert(FIELD_NAMES[rng.below(FIELD_NAMES.len())].to_string(), val);
                    return "rename_field";
                }
                return "drop_field";
            }
            (4, n @ Value::Object(_)) => {
                // struct encoded as a sequence instead of a map
                let vals: Vec<Value> = n.as_object().unwrap().values().cloned().collect();
                *n = Value::Array(vals);
                return "struct_as_seq";
            }
            (5, n) if !path.is_empty() => {
                // replace by a copy of another subtree
                let other = paths[rng.below(paths.len())].clone();
                let _ = n;
                let copy = json_at(root, &other).clone();
                *json_at(root, &path) = copy;
                return "replace_subtree";
            }
            (_, n @ Value::Number(_)) => {
                if let Some(v) = n.as_u64() {
                    let (nv, what) = cap_num(rng, v, bound, &pool);
                    *n = Value::from(nv);
                    return what;
                }
            }
            _ => {}
        }
    }
    "noop"
}

pub fn mutate(rng: &mut Rng, input: &Input, n: usize) -> (Input, Vec<&'static str>) {
    let mut kinds = Vec::new();
    match input {
        Input::Json(s) => {
            let mut v: Value = serde_json::from_str(s).expect("valid json");
            let bound = (s.len() as u64).max(16);
            for _ in 0..n {
                kinds.push(mutate_json(rng, &mut v, bound));
            }
            (Input::Json(v.to_string()), kinds)
        }
        Input::Tokens(t, hr) => {
            let mut t = t.clone();
            for _ in 0..n {
                kinds.push(mutate_tokens(rng, &mut t));
            }
            (Input::Tokens(t, *hr), kinds)
        }
    }
}

/// Every single-token deletion and every single numeric alteration of a token stream.
pub fn exhaustive_tokens(t: &[Token], hr: bool) -> Vec<(Input, &'static str)> {
    let mut out = Vec::new();
    let bound = (t.len() as u64).max(16);
    let mut pool: Vec<u64> = t.iter().filter_map(token_num).collect();
    pool.sort();
    pool.dedup();
    for i in 0..t.len() {
        let mut d = t.to_vec();
        d.remove(i);
        out.push((Input::Tokens(d, hr), "x_delete_token"));
        let mut d = t.to_vec();
        let x = d[i].clone();
        d.insert(i, x);
        out.push((Input::Tokens(d, hr), "x_duplicate_token"));
        if let Some(v) = token_num(&t[i]) {
            let mut cands: Vec<u64> = vec![0, v.saturating_add(1), v.saturating_sub(1), v.saturating_mul(2), bound];
            cands.extend(pool.iter().step_by((pool.len() / 8).max(1)).copied());
            cands.sort();
            cands.dedup();
            for nv in cands {
                let nv = nv.min(bound);
                if nv == v {
                    continue;
                }
                let mut d = t.to_vec();
                d[i] = token_with_num(&t[i], nv);
                out.push((Input::Tokens(d, hr), "x_alter_number"));
            }
        }
    }
    out
}

pub fn exhaustive_json(s: &str) -> Vec<(Input, &'static str)> {
    let root: Value = serde_json::from_str(s).expect("json");
    let mut paths = Vec::new();
    json_paths(&root, &mut Vec::new(), &mut paths);
    let bound = (s.len() as u64).max(16);
    let mut pool = Vec::new();
    json_numbers(&root, &mut pool);
    pool.sort();
    pool.dedup();
    let mut out = Vec::new();
    for path in &paths {
        let mut r = root.clone();
        match json_at(&mut r, path) {
            Value::Array(a) => {
                for i in 0..a.len() {
                    let mut r2 = root.clone();
                    if let Value::Array(a2) = json_at(&mut r2, path) {
                        a2.remove(i);
                    }
                    out.push((Input::Json(r2.to_string()), "x_delete_element"));
                    let mut r3 = root.clone();
                    if let Value::Array(a3) = json_at(&mut r3, path) {
                        let x = a3[i].clone();
                        a3.insert(i, x);
                    }
                    out.push((Input::Json(r3.to_string()), "x_duplicate_element"));
                }
            }
            Value::Object(o) => {
                let keys: Vec<String> = o.keys().cloned().collect();
                for k in keys {
                    let mut r2 = root.clone();
                    if let Value::Object(o2) = json_at(&mut r2, path) {
                        o2.remove(&k);
                    }
                    out.push((Input::Json(r2.to_string()), "x_drop_field"));
                }
            }
            Value::Number(n) => {
                if let Some(v) = n.as_u64() {
                    let mut cands: Vec<u64> = vec![0, v.saturating_add(1), v.saturating_sub(1), v.saturating_mul(2), bound];
                    cands.extend(pool.iter().step_by((pool.len() / 8).max(1)).copied());
                    cands.sort();
                    cands.dedup();
                    for nv in cands {
                        let nv = nv.min(bound);
                        if nv == v {
                            continue;
                        }
                        let mut r2 = root.clone();
                        *json_at(&mut r2, path) = Value::from(nv);
                        out.push((Input::Json(r2.to_string()), "x_alter_number"));
                    }
                }
            }
            _ => {}
        }
    }
    out
}

// ------------------------------------------------------------------------------------------
// oracle

pub struct DeserRun {
    pub stats: DeserStats,
    pub viols: Vec<Viol>,
    pub samples: Vec<String>,
    pub first_failing_input: Option<String>,
    sigs: BTreeSet<String>,
}

fn type_lives<G: ParRig>() -> Vec<i64> {
    G::TAGS.iter().chain(G::RES_TAGS.iter()).map(|t| ledger::type_live(*t)).collect()
}

impl DeserRun {
    pub fn sigs(&self) -> Vec<String> {
        self.sigs.iter().cloned().collect()
    }
    pub fn violations_json(&self) -> Vec<Viol> {
        self.viols.clone()
    }
    fn viol(&mut self, prop: &str, sig: &str, detail: String, input: &Input, kinds: &[&'static str]) {
        if self.viols.len() < 60 {
            if self.first_failing_input.is_none() && prop == "C11" {
                self.first_failing_input = Some(input.describe());
            }
            self.viols.push(Viol { prop: prop.into(), sig: sig.into(), detail, op_index: self.stats.cases as usize, op: format!("carrier={} mutations={:?} input={}", input.carrier(), kinds, trunc(&input.describe(), 1500)) });
        }
    }

    /// Try one input under all oracles.
    pub fn try_input<G: ParRig>(&mut self, input: &Input, kinds: &[&'static str], source: &W<G>, rng: &mut Rng, followup_ops: usize) {
        self.stats.cases += 1;
        *self.stats.by_carrier.entry(input.carrier().to_string()).or_insert(0) += 1;
        for k in kinds {
            *self.stats.by_mutation.entry(k.to_string()).or_insert(0) += 1;
        }
        let before_lives = type_lives::<G>();
        let before_live = ledger::live();
        let born_before = ledger::born_total();
        let sink_before = sink::count();
        let r = catch_unwind(AssertUnwindSafe(|| deserialize::<G>(input)));
        let outcome_sig;
        match r {
            Err(_) => {
                let lp = last_panic();
                if lp.contains("serde_assert") || lp.contains("serde_json") || lp.contains("/serde-") || lp.contains("serde_core") {
                    self.stats.outcome_carrier_panic += 1;
                    outcome_sig = "carrier_panic".to_string();
                } else {
                    outcome_sig = "panic".to_string();
                    self.viol("C11", "panic_in_deserialize", format!("deserialization panicked at {lp}"), input, kinds);
                }
            }
            Ok(Err(e)) => {
                self.stats.outcome_err += 1;
                let short: String = e.chars().filter(|c| !c.is_ascii_digit()).take(48).collect();
                outcome_sig = format!("err:{short}");
                if self.stats.err_messages_set.len() < 200 {
                    self.stats.err_messages_set.insert(short);
                }
                self.stats.values_built_in_failed += ledger::born_total() - born_before;
                // everything built by the failed attempt must be gone again
                let after = type_lives::<G>();
                if after != before_lives || ledger::live() != before_live {
                    let which: Vec<String> = after.iter().zip(before_lives.iter()).enumerate().filter(|(_, (a, b))| a != b).map(|(i, (a, b))| format!("type#{i}: {:+}", a - b)).collect();
                    self.viol(
                        "C04",
                        "deser_error_leaks_values",
                        format!("deserialization returned Err({e}) but values it had constructed were not dropped: {which:?}"),
                        input,
                        kinds,
                    );
                    // re-baseline is implicit: next input measures its own delta
                }
            }
            Ok(Ok(world)) => {
                self.stats.outcome_ok += 1;
                outcome_sig = "ok".to_string();
                self.check_ok_world::<G>(world, input, kinds, source, rng, followup_ops);
                let after = type_lives::<G>();
                if after != before_lives {
                    self.viol("C04", "deser_ok_world_leaks_values", format!("after dropping the deserialized world {:?} -> {:?}", before_lives, after), input, kinds);
                }
            }
        }
        if sink::count() != sink_before {
            for e in sink::drain() {
                let prop = if e.kind == "tracker_inconsistency" { "HARNESS" } else { "C11" };
                self.viol(prop, &format!("memory:{}", e.kind), e.detail, input, kinds);
            }
        }
        let sig = format!("{}|{}|{}", input.carrier(), kinds.join("+"), outcome_sig);
        if self.sigs.insert(sig) {
            self.stats.distinct += 1;
        }
        if self.samples.len() < 3 && self.stats.cases % 97 == 5 {
            self.samples.push(format!("carrier={} mutations={:?} -> {} ; input={}", input.carrier(), kinds, outcome_sig_short(&self.sigs), trunc(&input.describe(), 300)));
        }
    }

    fn check_ok_world<G: ParRig>(&mut self, mut world: W<G>, input: &Input, kinds: &[&'static str], source: &W<G>, rng: &mut Rng, followup_ops: usize) {
        if &world == source {
            self.stats.outcome_ok_equal_to_source += 1;
        }
        self.stats.ok_worlds_audited += 1;
        let d = world.verif_dump();
        if let Err(e) = audit::audit(&d) {
            self.viol("C11", "ok_world_fails_audit", format!("deserialization returned Ok but the world is structurally invalid: {e}"), input, kinds);
            // dropping an inconsistent world may itself be UB: leak it deliberately
            std::mem::forget(world);
            return;
        }
        // snapshot through the public API: identifiers unique, each resolves, len agrees
        let snap = match catch_unwind(AssertUnwindSafe(|| G::snapshot(&mut world))) {
            Ok(s) => s,
            Err(_) => {
                self.viol("C11", "ok_world_panics", format!("query on the deserialized world panicked at {}", last_panic()), input, kinds);
                std::mem::forget(world);
                return;
            }
        };
        let mut model = Model::new(G::N, G::res_get(&world).iter().map(|o| o.val).collect());
        let mut bad = None;
        for (id, comps) in &snap {
            let p = parts(*id);
            if !world.contains(*id) {
                bad = Some(format!("stored entity {p:?} is not accepted by contains()"));
            }
            let comps: Vec<Option<u64>> = comps.iter().map(|c| c.map(|o| o.val)).collect();
            if model.issue(p, comps).is_err() {
                bad = Some(format!("identifier {p:?} is attached to two entities"));
            }
        }
        if snap.len() != world.len() {
            bad = Some(format!("len() = {} but {} entities are stored", world.len(), snap.len()));
        }
        if let Some(b) = bad {
            self.viol("C11", "ok_world_inconsistent", format!("deserialization returned Ok but {b}"), input, kinds);
            std::mem::forget(world);
            return;
        }
        // The follow-up oracles identify entities by unique component values; a mutated input may
        // legitimately carry the same value twice (a duplicated subtree). Make them unique again
        // by overwriting the duplicates through Entry::add.
        {
            let mut seen: BTreeSet<(usize, u64)> = BTreeSet::new();
            let mut fresh = 0x5000_0000u64;
            let ids: Vec<(usize, u64)> = model.ents.keys().copied().collect();
            for p in ids {
                for k in 0..G::N {
                    if let Some(v) = model.ents[&p][k] {
                        if G::ident(k) && !seen.insert((k, v)) {
                            fresh += 1;
                            G::entry_add(&mut world, crate::rig::ident(p), k, fresh);
                            model.ents.get_mut(&p).unwrap()[k] = Some(fresh);
                            seen.insert((k, fresh));
                        }
                    }
                }
            }
        }
        // the free slots are identifiers issued earlier: generations below the slot's are stale
        for (i, s) in d.slots.iter().enumerate() {
            for g in 0..s.generation.min(3) {
                model.issued.entry((i, g)).or_insert(false);
            }
            if s.location.is_none() {
                model.issued.entry((i, s.generation)).or_insert(false);
            }
        }
        // follow-up history under every sequential oracle
        let mut h = Hist::<G>::new(rng.next(), seq::profile("general"));
        h.adopt(world, model, "deser");
        for _ in 0..followup_ops {
            let op = h.gen_op();
            self.stats.ok_followup_ops += 1;
            if !h.step(op) {
                break;
            }
        }
        h.finish();
        for v in h.viols {
            if v.prop == "C01" && v.sig == "extend_empty_shape_rows_dropped" {
                continue;
            }
            let detail = format!("a world obtained from this input misbehaved later ({} {}): {}", v.prop, v.sig, v.detail);
            self.viol("C11", &format!("ok_world_later:{}", v.sig), detail, input, kinds);
        }
    }
}

fn outcome_sig_short(s: &BTreeSet<String>) -> String {
    format!("{} distinct (carrier, mutation kinds, outcome) classes so far", s.len())
}

fn trunc(s: &str, n: usize) -> String {
    if s.len() <= n {
        s.to_string()
    } else {
        let mut e = n;
        while !s.is_char_boundary(e) {
            e -= 1;
        }
        format!("{}…", &s[..e])
    }
}

/// Grow a world with the history generator and return it (with its model discarded).
fn grow_world<G: ParRig>(seed: u64, nops: usize, max_entities: usize) -> Option<W<G>> {
    let mut prof = seq::profile("serde");
    prof.max_entities = max_entities;
    // no round trips / clones needed while growing
    prof.weights[15] = 0;
    let mut h = Hist::<G>::new(seed, prof);
    h.heavy_checks = false;
    h.check_every = 1000;
    for _ in 0..nops {
        let op = h.gen_op();
        if !h.step(op) {
            return None;
        }
    }
    let idx = (0..seq::POOL).find(|&i| h.slots[i].is_some())?;
    let slot = h.slots[idx].take()?;
    h.finish();
    Some(slot.world)
}

pub fn run<G: ParRig>(seed: u64, worlds: usize, mutants_per_world: usize, exhaustive_worlds: usize, followup_ops: usize) -> DeserRun {
    install_panic_recorder();
    let mut run = DeserRun { stats: DeserStats::default(), viols: Vec::new(), samples: Vec::new(), first_failing_input: None, sigs: BTreeSet::new() };
    let mut rng = Rng::new(seed);
    for wi in 0..worlds {
        let small = wi < exhaustive_worlds;
        let (nops, maxe) = if small { (6 + rng.below(8), 4) } else { (10 + rng.below(60), 3 + rng.below(20)) };
        let world = match grow_world::<G>(rng.next(), nops, maxe) {
            Some(w) => w,
            None => continue,
        };
        run.stats.source_worlds += 1;
        for carrier in 0..3u8 {
            let valid = serialize::<G>(&world, carrier);
            // the unmutated input must deserialize to an equal world (sanity of the carrier)
            run.try_input::<G>(&valid, &["identity"], &world, &mut rng, followup_ops);
            if small {
                run.stats.exhaustive_sources += 1;
                let all = match &valid {
                    Input::Json(s) => exhaustive_json(s),
                    Input::Tokens(t, hr) => exhaustive_tokens(t, *hr),
                };
                for (inp, kind) in all {
                    run.stats.exhaustive_inputs += 1;
                    run.try_input::<G>(&inp, &[kind], &world, &mut rng, followup_ops.min(12));
                }
            }
            for _ in 0..mutants_per_world {
                let n = 1 + rng.below(3);
                // a slip in a mutator must not take the whole shard down
                let (inp, kinds) = match catch_unwind(AssertUnwindSafe(|| mutate(&mut rng, &valid, n))) {
                    Ok(x) => x,
                    Err(_) => {
                        run.stats.mutator_panics += 1;
                        continue;
                    }
                };
                if inp.size() > 4 * valid.size() + 64 {
                    continue;
                }
                run.try_input::<G>(&inp, &kinds, &world, &mut rng, followup_ops);
            }
        }
        drop(world);
    }
    let _ = std::panic::take_hook();
    run
}
