//! Counting / auditing global allocator.
//!
//! Every allocation made while tracking is on is recorded as `ptr -> (size, align)`. `dealloc` and
//! `realloc` must present the same layout the block was created with (Rust passes the layout down,
//! the system `free` would not notice), must not free twice and must not free unknown pointers.
//! Live bytes / blocks are counted so that "everything is returned when the world is dropped" can
//! be checked around a closed scope.
//!
//! Disabled under Miri (Miri checks layouts itself) and with `--cfg bvh_notrack` (ASan / LSan /
//! memcheck builds: an address-remembering monitor would hide leaks from those tools).

use std::alloc::{GlobalAlloc, Layout, System};
use std::cell::Cell;
use std::sync::atomic::{AtomicI64, AtomicU64, Ordering};

pub struct Tracking;

#[cfg(not(any(miri, bvh_notrack)))]
#[global_allocator]
static GLOBAL: Tracking = Tracking;

thread_local! {
    static BYPASS: Cell<u32> = const { Cell::new(0) };
    /// Set while the tracker manipulates its own table (whose memory is never tracked).
    static INSIDE: Cell<bool> = const { Cell::new(false) };
}

static LIVE_BYTES: AtomicI64 = AtomicI64::new(0);
static LIVE_BLOCKS: AtomicI64 = AtomicI64::new(0);
static ALLOCS: AtomicU64 = AtomicU64::new(0);
static FREES: AtomicU64 = AtomicU64::new(0);
static REALLOCS: AtomicU64 = AtomicU64::new(0);

pub const fn enabled() -> bool {
    cfg!(not(any(miri, bvh_notrack)))
}

/// Run `f` with allocation tracking bypassed on this thread (monitor-internal bookkeeping).
/// Memory allocated inside must be freed inside an `untracked` scope too (or never).
pub fn untracked<T>(f: impl FnOnce() -> T) -> T {
    let prev = BYPASS.try_with(|b| {
        let p = b.get();
        b.set(p + 1);
        p
    });
    let r = f();
    if let Ok(p) = prev {
        let _ = BYPASS.try_with(|b| b.set(p));
    }
    r
}

/// Run `f` with allocation tracking forced on for this thread, whatever the enclosing scope is.
pub fn tracked<T>(f: impl FnOnce() -> T) -> T {
    let prev = BYPASS.try_with(|b| {
        let p = b.get();
        b.set(0);
        p
    });
    let r = f();
    if let Ok(p) = prev {
        let _ = BYPASS.try_with(|b| b.set(p));
    }
    r
}

fn bypassed() -> bool {
    BYPASS.try_with(|b| b.get() > 0).unwrap_or(true)
}

/// (address, size, align) of every tracked live block (debugging aid).
pub fn live_table() -> Vec<(usize, usize, usize)> {
    untracked(table::all)
}
pub fn live_bytes() -> i64 {
    LIVE_BYTES.load(Ordering::SeqCst)
}
pub fn live_blocks() -> i64 {
    LIVE_BLOCKS.load(Ordering::SeqCst)
}
pub fn counts() -> (u64, u64, u64) {
    (
        ALLOCS.load(Ordering::Relaxed),
        FREES.load(Ordering::Relaxed),
        REALLOCS.load(Ordering::Relaxed),
    )
}

mod table {
    //! Sharded open map ptr -> (size, align); its own memory comes straight from `System`.
    use std::collections::HashMap;
    use std::sync::Mutex;

    const SHARDS: usize = 64;
    #[allow(clippy::declare_interior_mutable_const)]
    const EMPTY: Mutex<Option<HashMap<usize, (usize, usize)>>> = Mutex::new(None);
    static TABLE: [Mutex<Option<HashMap<usize, (usize, usize)>>>; SHARDS] = [EMPTY; SHARDS];

    fn shard(p: usize) -> usize {
        ((p >> 4) ^ (p >> 12)) % SHARDS
    }
    pub fn insert(p: usize, size: usize, align: usize) -> Option<(usize, usize)> {
        let mut g = TABLE[shard(p)].lock().unwrap_or_else(|e| e.into_inner());
        g.get_or_insert_with(HashMap::new).insert(p, (size, align))
    }
    pub fn all() -> Vec<(usize, usize, usize)> {
        let mut out = Vec::new();
        for t in TABLE.iter() {
            let g = t.lock().unwrap_or_else(|e| e.into_inner());
            if let Some(m) = g.as_ref() {
                for (p, (s, a)) in m.iter() {
                    out.push((*p, *s, *a));
                }
            }
        }
        out
    }
    pub fn contains(p: usize) -> bool {
        let mut g = TABLE[shard(p)].lock().unwrap_or_else(|e| e.into_inner());
        g.get_or_insert_with(HashMap::new).contains_key(&p)
    }
    pub fn remove(p: usize) -> Option<(usize, usize)> {
        let mut g = TABLE[shard(p)].lock().unwrap_or_else(|e| e.into_inner());
        g.get_or_insert_with(HashMap::new).remove(&p)
    }
}

fn guarded<T>(f: impl FnOnce() -> T) -> T {
    // Inside the tracker: nested allocations / frees (the table's own) go straight to `System`.
    let prev = INSIDE.try_with(|b| b.replace(true)).unwrap_or(true);
    let r = untracked(f);
    let _ = INSIDE.try_with(|b| b.set(prev));
    r
}

fn inside() -> bool {
    INSIDE.try_with(|b| b.get()).unwrap_or(true)
}

unsafe impl GlobalAlloc for Tracking {
    unsafe fn alloc(&self, layout: Layout) -> *mut u8 {
        let p = unsafe { System.alloc(layout) };
        if !p.is_null() && !bypassed() {
            guarded(|| {
                ALLOCS.fetch_add(1, Ordering::Relaxed);
                LIVE_BYTES.fetch_add(layout.size() as i64, Ordering::SeqCst);
                LIVE_BLOCKS.fetch_add(1, Ordering::SeqCst);
                if let Some(old) = table::insert(p as usize, layout.size(), layout.align()) {
                    crate::sink::report(
                        "tracker_inconsistency",
                        format!("ptr={:#x} old={:?}", p as usize, old),
                    );
                }
            });
        }
        p
    }

    unsafe fn alloc_zeroed(&self, layout: Layout) -> *mut u8 {
        let p = unsafe { System.alloc_zeroed(layout) };
        if !p.is_null() && !bypassed() {
            guarded(|| {
                ALLOCS.fetch_add(1, Ordering::Relaxed);
                LIVE_BYTES.fetch_add(layout.size() as i64, Ordering::SeqCst);
                LIVE_BLOCKS.fetch_add(1, Ordering::SeqCst);
                table::insert(p as usize, layout.size(), layout.align());
            });
        }
        p
    }

    unsafe fn dealloc(&self, ptr: *mut u8, layout: Layout) {
        // Blocks allocated while tracked may be freed from an untracked scope (the harness drops
        // a Vec that brood returned): the table is consulted in every case.
        if inside() {
            return unsafe { System.dealloc(ptr, layout) };
        }
        let by = bypassed();
        {
            let ok = guarded(|| {
                FREES.fetch_add(1, Ordering::Relaxed);
                match table::remove(ptr as usize) {
                    Some((size, align)) => {
                        LIVE_BYTES.fetch_sub(size as i64, Ordering::SeqCst);
                        LIVE_BLOCKS.fetch_sub(1, Ordering::SeqCst);
                        if size != layout.size() || align != layout.align() {
                            crate::sink::report(
                                "layout_mismatch_dealloc",
                                format!(
                                    "ptr={:#x} allocated(size={size},align={align}) freed(size={},align={})",
                                    ptr as usize,
                                    layout.size(),
                                    layout.align()
                                ),
                            );
                        }
                        true
                    }
                    None if by => true,
                    None => {
                        crate::sink::report(
                            "free_of_unknown_or_freed_block",
                            format!(
                                "ptr={:#x} size={} align={}",
                                ptr as usize,
                                layout.size(),
                                layout.align()
                            ),
                        );
                        false
                    }
                }
            });
            if !ok {
                // Do not hand a bogus pointer to the system allocator: that would abort the
                // process and lose the report. Leak instead.
                return;
            }
        }
        unsafe { System.dealloc(ptr, layout) }
    }

    unsafe fn realloc(&self, ptr: *mut u8, layout: Layout, new_size: usize) -> *mut u8 {
        if inside() {
            return unsafe { System.realloc(ptr, layout, new_size) };
        }
        let by = bypassed();
        if by && !guarded(|| table::contains(ptr as usize)) {
            return unsafe { System.realloc(ptr, layout, new_size) };
        }
        let known = guarded(|| {
            REALLOCS.fetch_add(1, Ordering::Relaxed);
            match table::remove(ptr as usize) {
                Some((size, align)) => {
                    LIVE_BYTES.fetch_sub(size as i64, Ordering::SeqCst);
                    LIVE_BLOCKS.fetch_sub(1, Ordering::SeqCst);
                    if size != layout.size() || align != layout.align() {
                        crate::sink::report(
                            "layout_mismatch_realloc",
                            format!(
                                "ptr={:#x} allocated(size={size},align={align}) realloc(size={},align={})",
                                ptr as usize,
                                layout.size(),
                                layout.align()
                            ),
                        );
                    }
                    true
                }
                None => {
                    crate::sink::report(
                        "realloc_of_unknown_or_freed_block",
                        format!("ptr={:#x} size={} align={}", ptr as usize, layout.size(), layout.align()),
                    );
                    false
                }
            }
        });
        if !known {
            // Refuse to touch the bogus block: give the caller fresh memory of the new size.
            let nl = unsafe { Layout::from_size_align_unchecked(new_size, layout.align()) };
            return unsafe { self.alloc(nl) };
        }
        let p = unsafe { System.realloc(ptr, layout, new_size) };
        guarded(|| {
            if p.is_null() {
                // Old block still live.
                LIVE_BYTES.fetch_add(layout.size() as i64, Ordering::SeqCst);
                LIVE_BLOCKS.fetch_add(1, Ordering::SeqCst);
                table::insert(ptr as usize, layout.size(), layout.align());
            } else {
                LIVE_BYTES.fetch_add(new_size as i64, Ordering::SeqCst);
                LIVE_BLOCKS.fetch_add(1, Ordering::SeqCst);
                table::insert(p as usize, new_size, layout.align());
            }
        });
        p
    }
}
