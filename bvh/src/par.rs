//! Rayon pools of several sizes, built once per process (C09, C07).

use std::sync::OnceLock;

#[cfg(not(miri))]
pub const POOL_SIZES: [usize; 6] = [1, 2, 3, 4, 8, 16];
/// Under Miri thread creation and stealing are expensive: three small pools.
#[cfg(miri)]
pub const POOL_SIZES: [usize; 3] = [1, 2, 3];
static POOLS: OnceLock<Vec<rayon::ThreadPool>> = OnceLock::new();

pub fn pool(i: usize) -> &'static rayon::ThreadPool {
    let pools = POOLS.get_or_init(|| {
        crate::alloc::tracked(|| POOL_SIZES.iter().map(|&n| rayon::ThreadPoolBuilder::new().num_threads(n).build().expect("pool")).collect())
    });
    &pools[i % pools.len()]
}
