//! Drop ledger: every identity-carrying payload value has a unique `iid`; the ledger knows
//! whether it is live or dead and flags double drops, drops of unknown values and uses of dead
//! values. Per-type live counters cover zero-sized / one-byte payloads that cannot carry an id.
//!
//! The ledger stores ids, never addresses, so it hides nothing from LSan / memcheck.

use crate::sink;
use std::sync::atomic::{AtomicI64, AtomicPtr, AtomicU64, AtomicU8, Ordering};

#[cfg(not(miri))]
const CHUNK_BITS: u32 = 16;
#[cfg(miri)]
const CHUNK_BITS: u32 = 9;
const CHUNK: usize = 1 << CHUNK_BITS;
const NCHUNKS: usize = 1 << 14; // 2^30 ids

#[allow(clippy::declare_interior_mutable_const)]
const NULLP: AtomicPtr<AtomicU8> = AtomicPtr::new(std::ptr::null_mut());
static CHUNKS: [AtomicPtr<AtomicU8>; NCHUNKS] = [NULLP; NCHUNKS];
static NEXT: AtomicU64 = AtomicU64::new(1);
static LIVE: AtomicI64 = AtomicI64::new(0);
static BORN: AtomicU64 = AtomicU64::new(0);
static DIED: AtomicU64 = AtomicU64::new(0);

pub const NTYPES: usize = 64;
#[allow(clippy::declare_interior_mutable_const)]
const ZI: AtomicI64 = AtomicI64::new(0);
/// Per payload type `K`: constructed - destructed.
static TYPE_LIVE: [AtomicI64; NTYPES] = [ZI; NTYPES];

const LIVE_S: u8 = 1;
const DEAD_S: u8 = 2;

#[derive(Clone, Copy, Debug, PartialEq, Eq)]
pub enum Born {
    New = 0,
    Clone = 1,
    Deser = 2,
}

fn cell(iid: u64) -> Option<&'static AtomicU8> {
    let ci = (iid >> CHUNK_BITS) as usize;
    if ci >= NCHUNKS {
        return None;
    }
    let mut p = CHUNKS[ci].load(Ordering::Acquire);
    if p.is_null() {
        let fresh: *mut AtomicU8 = crate::alloc::untracked(|| {
            // zero-initialised bytes are valid `AtomicU8`s
            let v: Vec<u8> = vec![0u8; CHUNK];
            Box::leak(v.into_boxed_slice()).as_mut_ptr().cast::<AtomicU8>()
        });
        match CHUNKS[ci].compare_exchange(
            std::ptr::null_mut(),
            fresh,
            Ordering::AcqRel,
            Ordering::Acquire,
        ) {
            Ok(_) => p = fresh,
            Err(existing) => {
                // Another thread won; free ours.
                crate::alloc::untracked(|| unsafe {
                    drop(Box::from_raw(std::ptr::slice_from_raw_parts_mut(fresh, CHUNK)));
                });
                p = existing;
            }
        }
    }
    // SAFETY: p points to a leaked slice of CHUNK atomics.
    Some(unsafe { &*p.add((iid as usize) & (CHUNK - 1)) })
}

/// Register a freshly constructed value of payload type `k`; returns its iid.
pub fn born(k: u32, how: Born) -> u64 {
    let iid = NEXT.fetch_add(1, Ordering::Relaxed);
    if let Some(c) = cell(iid) {
        c.store(LIVE_S | ((how as u8) << 4), Ordering::Release);
    }
    LIVE.fetch_add(1, Ordering::Relaxed);
    BORN.fetch_add(1, Ordering::Relaxed);
    type_born(k);
    iid
}

/// Record the drop of value `iid` of type `k`.
pub fn died(iid: u64, k: u32) {
    match cell(iid) {
        Some(c) if iid != 0 && iid < NEXT.load(Ordering::Relaxed) => {
            let prev = c.swap(DEAD_S, Ordering::AcqRel);
            match prev & 0xf {
                LIVE_S => {
                    LIVE.fetch_sub(1, Ordering::Relaxed);
                    DIED.fetch_add(1, Ordering::Relaxed);
                    type_died(k);
                }
                DEAD_S => sink::report("double_drop", format!("iid={iid} type=K{k}")),
                _ => sink::report("unknown_drop", format!("iid={iid} type=K{k} (never born)")),
            }
        }
        _ => sink::report("unknown_drop", format!("iid={iid} type=K{k} (out of range)")),
    }
}

/// Check that `iid` is live (called whenever a value is observed).
pub fn check_live(iid: u64, k: u32, ctx: &'static str) -> bool {
    match cell(iid) {
        Some(c) if iid != 0 && iid < NEXT.load(Ordering::Relaxed) => {
            let s = c.load(Ordering::Acquire) & 0xf;
            if s == LIVE_S {
                true
            } else {
                sink::report(
                    if s == DEAD_S { "use_after_drop" } else { "use_of_unknown" },
                    format!("iid={iid} type=K{k} at={ctx}"),
                );
                false
            }
        }
        _ => {
            sink::report("use_of_unknown", format!("iid={iid} type=K{k} at={ctx} (out of range)"));
            false
        }
    }
}

pub fn is_live(iid: u64) -> bool {
    match cell(iid) {
        Some(c) if iid != 0 && iid < NEXT.load(Ordering::Relaxed) => {
            c.load(Ordering::Acquire) & 0xf == LIVE_S
        }
        _ => false,
    }
}

pub fn type_born(k: u32) {
    TYPE_LIVE[(k as usize) % NTYPES].fetch_add(1, Ordering::Relaxed);
}
pub fn type_died(k: u32) {
    TYPE_LIVE[(k as usize) % NTYPES].fetch_sub(1, Ordering::Relaxed);
}
pub fn type_live(k: u32) -> i64 {
    TYPE_LIVE[(k as usize) % NTYPES].load(Ordering::Relaxed)
}
/// Number of identity-carrying values currently live.
pub fn live() -> i64 {
    LIVE.load(Ordering::Relaxed)
}
pub fn born_total() -> u64 {
    BORN.load(Ordering::Relaxed)
}
pub fn died_total() -> u64 {
    DIED.load(Ordering::Relaxed)
}
pub fn next_iid() -> u64 {
    NEXT.load(Ordering::Relaxed)
}
