//! Panic-injection monitor (C17): a panic in user code that the library is calling must never
//! lead to a double drop or to freed memory being touched, then or later, and the world must
//! still be droppable.
//!
//! Method (fault enumeration): for each operation `o` that invokes user callbacks, a dry run
//! counts the callbacks N of the relevant kinds, then for every k in 1..=N the operation is
//! repeated on a fresh, identical world with the fuse armed to panic in the k-th callback. After
//! unwinding: read-only query of everything, a few further operations, drop of every world with
//! the fuse off. Oracles: drop ledger (double / unknown drop, use of a dead value), payload
//! checksums, allocator audit. Leaks are allowed.

use crate::fuse::{self, bit, Cb};
use crate::prng::Rng;
use crate::rig::{ident, Consumer, IterMode, ParCtx, ParRig, QCtx, W};
use crate::seq::{self, Hist, Op, Viol};
use crate::sink;
use serde::{Deserialize as _, Serialize as _};
use std::collections::{BTreeMap, BTreeSet};
use std::panic::{catch_unwind, AssertUnwindSafe};

#[derive(Clone, Debug)]
pub enum FaultOp {
    Remove { id: (usize, u64) },
    Clear,
    EntryOverwrite { id: (usize, u64), k: usize },
    EntryRemove { id: (usize, u64), k: usize },
    DropWorld,
    Clone,
    /// dst variant: 0 = fresh empty world, 1 = other world (different history), 2 = clone of source with half removed, 3 = clone of source with extra entities
    CloneFrom { dst: u8 },
    Eq,
    Debug,
    Serialize { carrier: u8 },
    Deserialize { carrier: u8 },
    RunSystem { qi: usize },
    RunParSystem { qi: usize },
    ParQuery { qi: usize, consumer: u8 },
    Query { qi: usize },
}

impl FaultOp {
    pub fn name(&self) -> String {
        match self {
            FaultOp::Remove { .. } => "World::remove".into(),
            FaultOp::Clear => "World::clear".into(),
            FaultOp::EntryOverwrite { .. } => "Entry::add(overwrite)".into(),
            FaultOp::EntryRemove { .. } => "Entry::remove".into(),
            FaultOp::DropWorld => "drop(World)".into(),
            FaultOp::Clone => "World::clone".into(),
            FaultOp::CloneFrom { dst } => format!("World::clone_from(dst={})", ["empty", "other", "smaller", "larger"][*dst as usize]),
            FaultOp::Eq => "World::eq".into(),
            FaultOp::Debug => "World::fmt(Debug)".into(),
            FaultOp::Serialize { carrier } => format!("Serialize({})", ["json", "tokens_readable", "tokens_compact"][*carrier as usize]),
            FaultOp::Deserialize { carrier } => format!("Deserialize({})", ["json", "tokens_readable", "tokens_compact"][*carrier as usize]),
            FaultOp::RunSystem { .. } => "World::run_system".into(),
            FaultOp::RunParSystem { .. } => "World::run_par_system".into(),
            FaultOp::ParQuery { .. } => "World::par_query".into(),
            FaultOp::Query { .. } => "World::query".into(),
        }
    }
    fn mask(&self) -> u32 {
        match self {
            FaultOp::Remove { .. } | FaultOp::Clear | FaultOp::EntryOverwrite { .. } | FaultOp::EntryRemove { .. } | FaultOp::DropWorld => bit(Cb::Drop),
            FaultOp::Clone => bit(Cb::Clone),
            FaultOp::CloneFrom { .. } => bit(Cb::Clone) | bit(Cb::Drop),
            FaultOp::Eq => bit(Cb::Eq),
            FaultOp::Debug => bit(Cb::Debug),
            FaultOp::Serialize { .. } => bit(Cb::Ser),
            FaultOp::Deserialize { .. } => bit(Cb::De),
            FaultOp::RunSystem { .. } | FaultOp::RunParSystem { .. } | FaultOp::ParQuery { .. } | FaultOp::Query { .. } => bit(Cb::Body),
        }
    }
}

#[derive(Clone, Debug, Default, serde_derive::Serialize, serde_derive::Deserialize)]
pub struct FaultStats {
    pub cases: u64,
    pub worlds: u64,
    pub ops_enumerated: u64,
    pub fuses_fired: u64,
    pub fuses_not_reached: u64,
    pub by_op: BTreeMap<String, u64>,
    pub callbacks_by_op: BTreeMap<String, u64>,
    pub panics_caught: u64,
    pub followup_queries: u64,
    pub followup_ops: u64,
    pub worlds_dropped_after_fault: u64,
    pub sigs_set: BTreeSet<String>,
}

pub struct FaultRun {
    pub stats: FaultStats,
    pub viols: Vec<Viol>,
    pub samples: Vec<String>,
}

struct Scene<G: ParRig> {
    src: W<G>,
    other: W<G>,
}

/// Rebuild the scene from the recorded op lists (deterministic: identical for every k).
fn build_scene<G: ParRig>(ops_a: &[Op], ops_b: &[Op]) -> Option<Scene<G>> {
    let grow = |ops: &[Op]| -> Option<W<G>> {
        let mut h = Hist::<G>::new(0, seq::profile("general"));
        h.heavy_checks = false;
        h.check_every = 100000;
        for op in ops {
            if !h.step(op.clone()) {
                return None;
            }
        }
        let s = h.slots[0].take()?;
        h.finish();
        Some(s.world)
    };
    Some(Scene { src: grow(ops_a)?, other: grow(ops_b)? })
}

/// Generate an op list that grows world 0 only (no clones / drops / round trips).
fn gen_world_ops<G: ParRig>(seed: u64, nops: usize) -> Vec<Op> {
    let mut prof = seq::profile("general");
    // only NewWorld(once, implicit), Insert, Extend, Remove, EntryAdd, EntryRemove
    for (i, w) in prof.weights.iter_mut().enumerate() {
        if !matches!(seq::KINDS[i], "Insert" | "Extend" | "Remove" | "EntryAdd" | "EntryRemove") {
            *w = 0;
        }
    }
    prof.max_entities = 9;
    let mut h = Hist::<G>::new(seed, prof);
    h.heavy_checks = false;
    h.check_every = 100000;
    let mut out = Vec::new();
    for _ in 0..nops {
        let op = h.gen_op();
        out.push(op.clone());
        if !h.step(op) {
            break;
        }
    }
    h.finish();
    out
}

fn ser_tokens<G: ParRig>(w: &W<G>, readable: bool) -> Result<serde_assert::Tokens, String> {
    let ser = serde_assert::Serializer::builder().is_human_readable(readable).build();
    w.serialize(&ser).map_err(|e| e.to_string())
}

impl FaultRun {
    fn viol(&mut self, sig: String, detail: String, op: &FaultOp, k: u64) {
        if self.viols.len() < 80 {
            self.viols.push(Viol { prop: "C17".into(), sig, detail, op_index: k as usize, op: format!("{:?} k={k}", op) });
        }
    }

    /// Execute `op` on the scene. Returns worlds that must be kept alive / dropped by the caller.
    fn exec<G: ParRig>(op: &FaultOp, sc: &mut Option<Scene<G>>, extra: &mut Vec<W<G>>) {
        let s = sc.as_mut().unwrap();
        match op {
            FaultOp::Remove { id } => s.src.remove(ident(*id)),
            FaultOp::Clear => s.src.clear(),
            FaultOp::EntryOverwrite { id, k } => {
                G::entry_add(&mut s.src, ident(*id), *k, 0xF00D);
            }
            FaultOp::EntryRemove { id, k } => {
                G::entry_remove(&mut s.src, ident(*id), *k);
            }
            FaultOp::DropWorld => {
                let Scene { src, other } = sc.take().unwrap();
                extra.push(other);
                drop(src);
            }
            FaultOp::Clone => {
                let c = s.src.clone();
                extra.push(c);
            }
            FaultOp::CloneFrom { dst } => match dst {
                0 => {
                    let mut d = G::new_world(&vec![1; G::NRES]);
                    // keep the destination reachable even if clone_from unwinds
                    let r = catch_unwind(AssertUnwindSafe(|| d.clone_from(&s.src)));
                    extra.push(d);
                    if let Err(e) = r {
                        std::panic::resume_unwind(e);
                    }
                }
                1 => s.other.clone_from(&s.src),
                2 => s.src.clone_from(&s.other),
                _ => {
                    let mut d = s.other.clone();
                    let r = catch_unwind(AssertUnwindSafe(|| d.clone_from(&s.src)));
                    extra.push(d);
                    if let Err(e) = r {
                        std::panic::resume_unwind(e);
                    }
                }
            },
            FaultOp::Eq => {
                let c = s.src == s.src;
                let d = s.src == s.other;
                std::hint::black_box((c, d));
            }
            FaultOp::Debug => {
                let t = format!("{:?}", s.src);
                std::hint::black_box(t.len());
            }
            FaultOp::Serialize { carrier } => match carrier {
                0 => {
                    let _ = serde_json::to_string(&s.src);
                }
                c => {
                    let _ = ser_tokens::<G>(&s.src, *c == 1);
                }
            },
            FaultOp::Deserialize { carrier } => {
                // serialize with the fuse blind to Ser, deserialize under the fuse
                match carrier {
                    0 => {
                        let text = serde_json::to_string(&s.src).expect("serialize");
                        if let Ok(w) = serde_json::from_str::<W<G>>(&text) {
                            extra.push(w);
                        }
                    }
                    c => {
                        let toks = ser_tokens::<G>(&s.src, *c == 1).expect("serialize");
                        let mut de = serde_assert::Deserializer::builder().tokens(toks).is_human_readable(*c == 1).self_describing(false).build();
                        if let Ok(w) = <W<G>>::deserialize(&mut de) {
                            extra.push(w);
                        }
                    }
                }
            }
            FaultOp::Query { qi } => {
                let mut cx = QCtx::new(IterMode::Next, true, 0x7000_0000, 3);
                G::run_query(&mut s.src, *qi, &mut cx);
            }
            FaultOp::RunSystem { qi } => {
                let mut cx = QCtx::new(IterMode::Fold, true, 0x7000_0000, 3);
                G::run_system(&mut s.src, *qi, &mut cx);
            }
            FaultOp::RunParSystem { qi } => {
                let pcx = ParCtx::new(true, 0x7000_0000, 3, 0, usize::MAX);
                let mut cx = QCtx::new(IterMode::Skip, true, 0x7100_0000, 3);
                let w = &mut s.src;
                crate::par::pool(3).install(|| G::run_par_system(w, *qi, &pcx, &mut cx));
            }
            FaultOp::ParQuery { qi, consumer } => {
                let pcx = ParCtx::new(true, 0x7000_0000, 3, 0, usize::MAX);
                let mut cx = QCtx::new(IterMode::Skip, true, 0x7100_0000, 3);
                let w = &mut s.src;
                let c = crate::rig::CONSUMERS[*consumer as usize];
                crate::par::pool(2).install(|| {
                    G::run_par_query(w, *qi, &pcx, &mut cx, c);
                });
                let _ = Consumer::ForEach;
            }
        }
    }

    /// After the fault: look at everything, do a few ops, drop everything. All with the fuse off.
    fn aftermath<G: ParRig>(&mut self, sc: Option<Scene<G>>, extra: Vec<W<G>>, rng: &mut Rng, target: Option<(usize, u64)>) -> Result<(), String> {
        let mut worlds: Vec<W<G>> = extra;
        if let Some(Scene { mut src, other }) = sc {
            // first of all: keep using the entity the faulted operation was working on, through
            // its identifier (a stale location would surface here)
            if let Some(t) = target {
                let r = catch_unwind(AssertUnwindSafe(|| {
                    let id = ident(t);
                    let _ = G::entry_snapshot(&mut src, id);
                    for k in 0..G::N {
                        G::entry_add(&mut src, id, k, 0x6200_0000 + k as u64);
                    }
                    let _ = G::entry_snapshot(&mut src, id);
                    if G::N > 0 {
                        G::entry_remove(&mut src, id, 0);
                    }
                    src.remove(id);
                }));
                self.stats.followup_ops += 4;
                if let Err(e) = r {
                    worlds.push(src);
                    worlds.push(other);
                    // leak: the state is unknown
                    std::mem::forget(worlds);
                    return Err(format!("using the faulted entity's identifier afterwards panicked: {}", seq::panic_msg(&e)));
                }
            }
            worlds.push(src);
            worlds.push(other);
        }
        for w in worlds.iter_mut() {
            // read-only pass over every stored value (validates tag / checksum / liveness)
            let rows = catch_unwind(AssertUnwindSafe(|| G::snapshot(w))).map_err(|e| format!("query after the fault panicked: {}", seq::panic_msg(&e)))?;
            self.stats.followup_queries += 1;
            let _ = G::res_get(w);
            // a few further ops
            let r = catch_unwind(AssertUnwindSafe(|| {
                let (shape, orders) = G::SHAPES[rng.below(G::SHAPES.len())];
                let vals: Vec<u64> = (0..G::N).map(|i| 0x6000_0000 + i as u64).collect();
                let nid = G::insert(w, shape, rng.below(orders as usize) as u8, &vals);
                if !rows.is_empty() {
                    let (id, _) = rows[rng.below(rows.len())];
                    w.remove(id);
                    if G::N > 0 {
                        let (id2, _) = rows[rng.below(rows.len())];
                        G::entry_add(w, id2, rng.below(G::N), 0x6100_0000);
                    }
                }
                w.remove(nid);
                let _ = G::snapshot(w);
                w.shrink_to_fit();
            }));
            self.stats.followup_ops += 4;
            r.map_err(|e| format!("operation after the fault panicked: {}", seq::panic_msg(&e)))?;
        }
        for w in worlds {
            catch_unwind(AssertUnwindSafe(|| drop(w))).map_err(|e| format!("dropping the world after the fault panicked: {}", seq::panic_msg(&e)))?;
            self.stats.worlds_dropped_after_fault += 1;
        }
        Ok(())
    }

    fn run_case<G: ParRig>(&mut self, ops_a: &[Op], ops_b: &[Op], op: &FaultOp, k: u64, rng: &mut Rng) {
        use std::io::Write;
        eprintln!("CASE name=[{}] op={:?} k={k}", op.name(), op);
        let _ = std::io::stderr().flush();
        let sink0 = sink::count();
        let mut sc = match build_scene::<G>(ops_a, ops_b) {
            Some(s) => Some(s),
            None => return,
        };
        let mut extra: Vec<W<G>> = Vec::new();
        self.stats.cases += 1;
        *self.stats.by_op.entry(op.name()).or_insert(0) += 1;
        let fired_before = fuse::fired();
        fuse::arm(op.mask(), k);
        let r = catch_unwind(AssertUnwindSafe(|| Self::exec::<G>(op, &mut sc, &mut extra)));
        fuse::disarm();
        let fired = fuse::fired() != fired_before;
        if fired {
            self.stats.fuses_fired += 1;
        } else {
            self.stats.fuses_not_reached += 1;
        }
        if r.is_err() {
            self.stats.panics_caught += 1;
        }
        let cbname = |e: &sink::Event| e.kind;
        // events during the faulted op itself
        let mut events = if sink::count() != sink0 { sink::drain() } else { Vec::new() };
        let target = match op {
            FaultOp::Remove { id } | FaultOp::EntryOverwrite { id, .. } | FaultOp::EntryRemove { id, .. } => Some(*id),
            _ => None,
        };
        let after = self.aftermath::<G>(sc, extra, rng, target);
        if sink::count() != sink0 {
            events.extend(sink::drain());
        }
        let cb = if fired { fuse::last_fired_cb() } else { "none" };
        if let Err(e) = after {
            self.viol(format!("unsafe_after_panic@{}:{cb}", op.name()), format!("aftermath_panic: {e}"), op, k);
        }
        let mut seen = BTreeSet::new();
        for e in events {
            if e.kind == "tracker_inconsistency" {
                self.viols.push(Viol { prop: "HARNESS".into(), sig: e.kind.into(), detail: e.detail, op_index: k as usize, op: format!("{:?}", op) });
                continue;
            }
            let sig = format!("unsafe_after_panic@{}:{cb}", op.name());
            if seen.insert(format!("{sig}/{}", cbname(&e))) {
                self.viol(sig, format!("panic injected into callback #{k} ({cb}) of {}: afterwards {} ({})", op.name(), e.kind, e.detail), op, k);
            }
        }
        self.stats.sigs_set.insert(format!("{}|fired={fired}|panicked={}", op.name(), r.is_err()));
    }
}

pub fn run<G: ParRig>(seed: u64, nworlds: usize, max_k: u64, skip: &[String], only: &[String], op_limit: usize, scene_ops: usize) -> FaultRun {
    crate::deser::install_panic_recorder();
    fuse::VERBOSE.store(1, std::sync::atomic::Ordering::Relaxed);
    let mut run = FaultRun { stats: FaultStats::default(), viols: Vec::new(), samples: Vec::new() };
    let mut rng = Rng::new(seed);
    for wi in 0..nworlds {
        let ops_a = gen_world_ops::<G>(rng.next(), scene_ops + rng.below(scene_ops / 2 + 1));
        let ops_b = gen_world_ops::<G>(rng.next(), scene_ops / 2 + rng.below(scene_ops / 2 + 1));
        let sc = match build_scene::<G>(&ops_a, &ops_b) {
            Some(s) => s,
            None => continue,
        };
        run.stats.worlds += 1;
        // choose targets from the source world's content
        let mut src = sc.src;
        let rows = G::snapshot(&mut src);
        let d = src.verif_dump();
        drop(src);
        drop(sc.other);
        let mut ops: Vec<FaultOp> = Vec::new();
        // rows first / middle / last of the largest archetype, and one of a multi-column one
        let mut targets: Vec<(usize, u64)> = Vec::new();
        if let Some(a) = d.archetypes.iter().max_by_key(|a| a.length) {
            if a.length > 0 {
                targets.push(a.entity_identifiers[0]);
                targets.push(a.entity_identifiers[a.length / 2]);
                targets.push(a.entity_identifiers[a.length - 1]);
            }
        }
        if let Some(a) = d.archetypes.iter().filter(|a| a.length > 0).max_by_key(|a| a.columns.len()) {
            targets.push(a.entity_identifiers[0]);
        }
        targets.sort();
        targets.dedup();
        for t in &targets {
            ops.push(FaultOp::Remove { id: *t });
            let comps = rows.iter().find(|(id, _)| crate::rig::parts(*id) == *t).map(|(_, c)| c.clone());
            if let Some(c) = comps {
                for (k, v) in c.iter().enumerate() {
                    if v.is_some() && ops.len() < 40 {
                        ops.push(FaultOp::EntryOverwrite { id: *t, k });
                        ops.push(FaultOp::EntryRemove { id: *t, k });
                    }
                }
            }
        }
        ops.push(FaultOp::Clear);
        ops.push(FaultOp::DropWorld);
        ops.push(FaultOp::Clone);
        for dst in 0..4 {
            ops.push(FaultOp::CloneFrom { dst });
        }
        ops.push(FaultOp::Eq);
        ops.push(FaultOp::Debug);
        for c in 0..3 {
            ops.push(FaultOp::Serialize { carrier: c });
            ops.push(FaultOp::Deserialize { carrier: c });
        }
        for _ in 0..3 {
            let qi = rng.below(G::NPAR.max(1));
            ops.push(FaultOp::Query { qi });
            ops.push(FaultOp::RunSystem { qi });
            ops.push(FaultOp::RunParSystem { qi });
            ops.push(FaultOp::ParQuery { qi, consumer: rng.below(2) as u8 });
        }
        ops.retain(|op| !skip.iter().any(|s| *s == op.name()));
        if !only.is_empty() {
            ops.retain(|op| only.iter().any(|s| *s == op.name()));
        }
        if op_limit > 0 && ops.len() > op_limit {
            rng.shuffle(&mut ops);
            ops.truncate(op_limit);
        }
        for op in &ops {
            // dry run: count callbacks
            let mut sc = match build_scene::<G>(&ops_a, &ops_b) {
                Some(s) => Some(s),
                None => continue,
            };
            let mut extra = Vec::new();
            fuse::count_start(op.mask());
            let r = catch_unwind(AssertUnwindSafe(|| FaultRun::exec::<G>(op, &mut sc, &mut extra)));
            let n = fuse::count_stop();
            drop(extra);
            drop(sc);
            if r.is_err() {
                run.viols.push(Viol { prop: "HARNESS".into(), sig: "dry_run_panicked".into(), detail: format!("{:?}: {}", op, crate::deser::last_panic()), op_index: 0, op: format!("{:?}", op) });
                continue;
            }
            run.stats.ops_enumerated += 1;
            *run.stats.callbacks_by_op.entry(op.name()).or_insert(0) += n;
            if run.samples.len() < 4 && n > 0 && wi == 0 {
                run.samples.push(format!("world of {} entities in {} archetypes: {:?} invokes {} user callbacks of the armed kinds; a panic is injected at each k in 1..={}", rows.len(), d.archetypes.len(), op, n, n.min(max_k)));
            }
            // every position (sampled evenly when there are more than max_k)
            let ks: Vec<u64> = if n <= max_k { (1..=n).collect() } else { (0..max_k).map(|i| 1 + i * n / max_k).collect() };
            for k in ks {
                run.run_case::<G>(&ops_a, &ops_b, op, k, &mut rng);
            }
        }
    }
    let _ = std::panic::take_hook();
    run
}
