//! bvh: brood verification harness — runtime monitors for brood (see /verif/DESIGN.md).

pub mod alloc;
pub mod audit;
pub mod cli;
pub mod deser;
pub mod faults;
pub mod fuse;
pub mod ledger;
pub mod model;
pub mod par;
pub mod payload;
pub mod prng;
pub mod rig;
pub mod sched;
pub mod seq;
pub mod sink;
