//! Global violation sink. Monitors that cannot panic (e.g. inside `Drop`, inside the allocator)
//! record what they saw here; drivers poll `count()` at quiescent points.

use std::sync::atomic::{AtomicU64, Ordering};
use std::sync::Mutex;

#[derive(Clone, Debug, PartialEq, Eq)]
pub struct Event {
    /// Short machine-readable kind, e.g. `double_drop`, `bad_checksum`, `layout_mismatch`.
    pub kind: &'static str,
    pub detail: String,
}

static COUNT: AtomicU64 = AtomicU64::new(0);
static EVENTS: Mutex<Vec<Event>> = Mutex::new(Vec::new());

/// Record an event. Safe to call from `Drop` and from any thread. Never panics.
pub fn report(kind: &'static str, detail: String) {
    COUNT.fetch_add(1, Ordering::SeqCst);
    crate::alloc::untracked(|| {
        if let Ok(mut g) = EVENTS.lock() {
            if g.len() < 4096 {
                g.push(Event { kind, detail });
            }
        }
    });
}

pub fn count() -> u64 {
    COUNT.load(Ordering::SeqCst)
}

/// Take all recorded events (resets the list, not the monotone counter). The returned vector is
/// allocated in the caller's tracking state.
pub fn drain() -> Vec<Event> {
    let taken: Vec<Event> = crate::alloc::untracked(|| match EVENTS.lock() {
        Ok(mut g) => std::mem::take(&mut *g),
        Err(p) => std::mem::take(&mut *p.into_inner()),
    });
    let copy: Vec<Event> = taken.to_vec();
    crate::alloc::untracked(|| drop(taken));
    copy
}
