//! Schedule monitor support (C07, C08, C12).
//!
//! Generated schedule programs (gen/gen_sched.py) define deterministic, order-sensitive systems
//! over rig R5's components and hand them to `run_program`, which
//!  * runs the schedule through `World::run_schedule` with the fork/join shim hooked (serial
//!    executions of every join in both orders and in seeded random orders: every admissible
//!    order of task starts at join granularity is reachable and replayable from the seed) and on
//!    real rayon pools of several sizes,
//!  * compares world, resources, system state and run counters with a sequential reference run
//!    on a clone (C07),
//!  * records for every task its strand path in the fork/join tree and its reach set (address +
//!    mode of everything its iterator yields, its resource views give, and its entry views can
//!    reach for every entity), and reports two logically parallel tasks whose reach sets
//!    conflict (C08) -- a verdict over all interleavings of the observed fork/join DAG,
//!  * on an empty world (no early starts) checks that tasks which a greedy in-order grouping by
//!    declared access puts together are logically parallel (C12), and that run_schedule returns
//!    on pools of 1, 2 and 16 threads.

use crate::payload::Payload;
use crate::prng::{mix2, Rng};
use crate::rig::{parts, ParRig, W};
use brood::entity::Identifier;
use std::cell::RefCell;
use std::collections::{BTreeMap, BTreeSet};
use std::sync::atomic::{AtomicU64, Ordering};
use std::sync::{Arc, Mutex};

pub const P: u64 = 0x9E37_79B9_7F4A_7C15;

// ------------------------------------------------------------------------------------------
// fork/join observation

#[derive(Clone, Copy, Debug, PartialEq, Eq)]
pub enum Mode {
    /// Hooked: every join runs a then b.
    SerialAB,
    /// Hooked: every join runs b then a.
    SerialBA,
    /// Hooked: each join's order drawn from the seeded decision stream.
    SerialRandom(u64),
    /// Not hooked: real rayon::join on pool index i.
    Pool(usize),
}

thread_local! {
    static PATH: RefCell<Vec<(u64, u8)>> = const { RefCell::new(Vec::new()) };
}
static NEXT_JOIN: AtomicU64 = AtomicU64::new(1);
static JOINS: AtomicU64 = AtomicU64::new(0);
static DECISIONS: Mutex<Option<Rng>> = Mutex::new(None);
static ORDER: AtomicU64 = AtomicU64::new(0);

fn current_path() -> Vec<(u64, u8)> {
    PATH.with(|p| p.borrow().clone())
}

fn join_hook(a: &mut (dyn FnMut() + Send), b: &mut (dyn FnMut() + Send)) {
    let id = NEXT_JOIN.fetch_add(1, Ordering::SeqCst);
    JOINS.fetch_add(1, Ordering::SeqCst);
    let a_first = match ORDER.load(Ordering::SeqCst) {
        0 => true,
        1 => false,
        _ => DECISIONS.lock().unwrap().as_mut().map_or(true, |r| r.chance(1, 2)),
    };
    let mut run = |branch: u8, f: &mut (dyn FnMut() + Send)| {
        PATH.with(|p| p.borrow_mut().push((id, branch)));
        f();
        PATH.with(|p| {
            p.borrow_mut().pop();
        });
    };
    if a_first {
        run(0, a);
        run(1, b);
    } else {
        run(1, b);
        run(0, a);
    }
}

/// Two strand paths are logically parallel iff they first differ at the same join, in the branch.
pub fn logically_parallel(a: &[(u64, u8)], b: &[(u64, u8)]) -> bool {
    for (x, y) in a.iter().zip(b.iter()) {
        if x == y {
            continue;
        }
        return x.0 == y.0 && x.1 != y.1;
    }
    false
}

// ------------------------------------------------------------------------------------------
// task instrumentation

#[derive(Clone, Debug, PartialEq, Eq)]
pub struct Access {
    pub addr: usize,
    pub mutable: bool,
    /// 'i' iterator item, 'r' resource view, 'e' entry view
    pub via: char,
    pub what: usize,
}

#[derive(Clone, Debug)]
pub struct TaskLog {
    pub task: usize,
    pub path: Vec<(u64, u8)>,
    pub start_seq: u64,
    pub end_seq: u64,
    pub reach: Vec<Access>,
    pub items: usize,
}

static SEQ: AtomicU64 = AtomicU64::new(0);
static LOGS: Mutex<Vec<TaskLog>> = Mutex::new(Vec::new());

#[derive(Clone, Debug)]
pub struct TaskState {
    pub id: usize,
    pub runs: u64,
    pub acc: u64,
    pub ids: Arc<Vec<Identifier>>,
    /// Microseconds of busy-wait per item (perturbs real-pool runs).
    pub jitter: u64,
}

impl TaskState {
    pub fn new(id: usize, ids: &Arc<Vec<Identifier>>, jitter: u64) -> Self {
        TaskState { id, runs: 0, acc: 0, ids: ids.clone(), jitter }
    }
    pub fn begin(&mut self) -> TaskRun<'_> {
        self.runs += 1;
        crate::fuse::hit(crate::fuse::Cb::Body);
        let path = current_path();
        let start_seq = SEQ.fetch_add(1, Ordering::SeqCst);
        TaskRun { res_hash: mix2(self.id as u64, 0x7a5c), st: self, sum: AtomicU64::new(0), items: AtomicU64::new(0), reach: Mutex::new(Vec::new()), path, start_seq }
    }
    pub fn summary(&self) -> (usize, u64, u64) {
        (self.id, self.runs, self.acc)
    }
}

pub struct TaskRun<'s> {
    st: &'s mut TaskState,
    sum: AtomicU64,
    items: AtomicU64,
    reach: Mutex<Vec<Access>>,
    path: Vec<(u64, u8)>,
    start_seq: u64,
    /// Hash of the resource values read at task start (feeds every item update).
    res_hash: u64,
}

impl<'s> TaskRun<'s> {
    fn log(&self, addr: usize, mutable: bool, via: char, what: usize) {
        // zero-sized components all live at the same dangling address: no memory to share
        if addr >= 4096 {
            self.reach.lock().unwrap().push(Access { addr, mutable, via, what });
        }
    }
    pub fn ids(&self) -> Arc<Vec<Identifier>> {
        self.st.ids.clone()
    }
    /// Immutable resource view: its value feeds the item updates.
    pub fn res<T: Payload>(&mut self, r: usize, p: &T) {
        self.log(p.addr(), false, 'r', r);
        self.res_hash = mix2(self.res_hash, p.obs("task resource &").val);
    }
    /// Mutable resource view, read part (call for every resource before iterating).
    pub fn res_mut_read<T: Payload>(&mut self, r: usize, p: &T) {
        self.log(p.addr(), true, 'r', r);
        self.res_hash = mix2(self.res_hash, p.obs("task resource &mut").val);
    }
    /// Mutable resource view, write part (after iterating): new = old * P + f(task, sum of item hashes).
    pub fn res_mut_write<T: Payload>(&self, _r: usize, p: &mut T) {
        let old = p.obs("task resource &mut").val;
        let new = old.wrapping_mul(P).wrapping_add(mix2(self.st.id as u64, self.sum.load(Ordering::SeqCst)));
        p.set(T::norm(new & 0x3fff_ffff_ffff));
    }
    pub fn item(&self) -> ItemRun<'_, 's> {
        if self.st.jitter > 0 {
            let t = std::time::Instant::now();
            while t.elapsed().as_micros() < self.st.jitter as u128 {
                std::hint::spin_loop();
            }
        }
        self.items.fetch_add(1, Ordering::Relaxed);
        crate::fuse::hit(crate::fuse::Cb::Body);
        ItemRun { t: self, h: mix2(self.res_hash, self.st.id as u64), entity: 0 }
    }
    /// Entry view access for one entity (immutable): contributes to the task's own state.
    pub fn entry<T: Payload>(&self, k: usize, p: &T) {
        self.log(p.addr(), false, 'e', k);
        self.sum.fetch_add(mix2(p.obs("task entry &").val, 0xe0 + k as u64), Ordering::SeqCst);
    }
    /// Entry view access for one entity (mutable): new = old * P + const(task).
    pub fn entry_mut<T: Payload>(&self, k: usize, p: &mut T) {
        self.log(p.addr(), true, 'e', k);
        let old = p.obs("task entry &mut").val;
        self.sum.fetch_add(mix2(old, 0xe8 + k as u64), Ordering::SeqCst);
        let new = old.wrapping_mul(P).wrapping_add(mix2(self.st.id as u64, 0xe7e7 + k as u64));
        p.set(T::norm(new & 0x3fff_ffff_ffff));
    }
    pub fn entry_opt<T: Payload>(&self, k: usize, p: Option<&T>) {
        if let Some(p) = p {
            self.entry(k, p)
        }
    }
    pub fn entry_opt_mut<T: Payload>(&self, k: usize, p: Option<&mut T>) {
        if let Some(p) = p {
            self.entry_mut(k, p)
        }
    }
    pub fn end(self) {
        let end_seq = SEQ.fetch_add(1, Ordering::SeqCst);
        self.st.acc = self.st.acc.wrapping_mul(P).wrapping_add(self.sum.load(Ordering::SeqCst));
        let log = TaskLog { task: self.st.id, path: self.path, start_seq: self.start_seq, end_seq, reach: self.reach.into_inner().unwrap(), items: self.items.load(Ordering::Relaxed) as usize };
        LOGS.lock().unwrap().push(log);
    }
}

pub struct ItemRun<'t, 's> {
    t: &'t TaskRun<'s>,
    h: u64,
    entity: u64,
}

impl<'t, 's> ItemRun<'t, 's> {
    pub fn id(&mut self, id: Identifier) {
        let p = parts(id);
        self.entity = mix2(p.0 as u64, p.1);
        self.h = mix2(self.h, self.entity);
    }
    pub fn rd<T: Payload>(&mut self, k: usize, p: &T, mutable: bool) {
        self.t.log(p.addr(), mutable, 'i', k);
        self.h = mix2(self.h, mix2(p.obs("task view").val, k as u64));
    }
    pub fn rd_opt<T: Payload>(&mut self, k: usize, p: Option<&T>, mutable: bool) {
        match p {
            Some(p) => self.rd(k, p, mutable),
            None => self.h = mix2(self.h, 0xdead_0000 + k as u64),
        }
    }
    /// Write (after all reads of the item): new = old * P + h(item).
    pub fn wr<T: Payload>(&mut self, k: usize, p: &mut T) {
        let old = p.obs("task view &mut").val;
        let new = old.wrapping_mul(P).wrapping_add(mix2(self.h, k as u64));
        p.set(T::norm(new & 0x3fff_ffff_ffff));
    }
    pub fn wr_opt<T: Payload>(&mut self, k: usize, p: Option<&mut T>) {
        if let Some(p) = p {
            self.wr(k, p)
        }
    }
    pub fn done(self) {
        self.t.sum.fetch_add(self.h, Ordering::SeqCst);
    }
}

// ------------------------------------------------------------------------------------------
// program description and driver

#[derive(Clone, Debug)]
pub struct TaskDesc {
    pub name: &'static str,
    pub par: bool,
    /// (component, mutable) for views and entry views together
    pub comps: &'static [(usize, bool)],
    /// (resource, mutable)
    pub res: &'static [(usize, bool)],
    pub text: &'static str,
}

pub fn conflict(a: &TaskDesc, b: &TaskDesc) -> bool {
    for &(k, m) in a.comps {
        for &(k2, m2) in b.comps {
            if k == k2 && (m || m2) {
                return true;
            }
        }
    }
    for &(r, m) in a.res {
        for &(r2, m2) in b.res {
            if r == r2 && (m || m2) {
                return true;
            }
        }
    }
    false
}

/// Greedy in-order grouping by declared access.
pub fn reference_groups(tasks: &[TaskDesc]) -> Vec<Vec<usize>> {
    let mut groups: Vec<Vec<usize>> = Vec::new();
    for (i, t) in tasks.iter().enumerate() {
        let fits = groups.last().map_or(false, |g| g.iter().all(|&j| !conflict(&tasks[j], t)));
        if fits {
            groups.last_mut().unwrap().push(i);
        } else {
            groups.push(vec![i]);
        }
    }
    groups
}

pub type RunFn<G> = fn(&mut W<G>, &Arc<Vec<Identifier>>, u64) -> Vec<(usize, u64, u64)>;

pub struct Program<G: ParRig> {
    pub name: &'static str,
    pub tasks: &'static [TaskDesc],
    pub run_schedule: RunFn<G>,
    pub run_sequential: RunFn<G>,
}

#[derive(Default)]
struct Out {
    runs: u64,
    worlds: u64,
    joins: u64,
    task_execs: u64,
    parallel_pairs_examined: u64,
    parallel_pairs_conflict_free: u64,
    ordered_pairs: u64,
    early_starts: u64,
    empty_world_runs: u64,
    same_group_pairs_checked: u64,
    by_mode: BTreeMap<String, u64>,
    dag_shapes: BTreeSet<String>,
    start_orders: BTreeSet<String>,
    viols: Vec<(String, String, String)>,
    samples: Vec<String>,
    accesses_logged: u64,
}

fn world_kind_name(k: usize) -> &'static str {
    ["empty", "single_full_archetype", "disjoint_archetypes", "random_mix", "many_small_archetypes"][k % 5]
}

/// Build a world of the given kind. Returns the ids in insertion order.
fn make_world<G: ParRig>(kind: usize, rng: &mut Rng) -> (W<G>, Vec<Identifier>) {
    let res: Vec<u64> = (0..G::NRES).map(|r| 100 + r as u64).collect();
    let mut w = G::new_world(&res);
    let mut ids = Vec::new();
    let full = (1u32 << G::N) - 1;
    let shapes: Vec<u32> = G::SHAPES.iter().map(|s| s.0).collect();
    let n = match kind % 5 {
        0 => 0,
        1 => 6 + rng.below(10),
        2 => 8 + rng.below(10),
        3 => 4 + rng.below(24),
        _ => 12 + rng.below(8),
    };
    let mut val = 1000u64;
    for i in 0..n {
        let shape = match kind % 5 {
            1 => full,
            2 => {
                // two disjoint halves of the registry
                let lo = (1u32 << (G::N / 2)) - 1;
                if i % 2 == 0 {
                    lo
                } else {
                    full & !lo
                }
            }
            3 => shapes[rng.below(shapes.len())],
            _ => shapes[(i * 7 + 3) % shapes.len()],
        };
        let vals: Vec<u64> = (0..G::N)
            .map(|_| {
                val += 1;
                val
            })
            .collect();
        ids.push(G::insert(&mut w, shape, 0, &vals));
    }
    // a removed entity leaves a stale id in the list (entry views must skip it)
    if ids.len() > 3 && rng.chance(1, 2) {
        let i = rng.below(ids.len());
        w.remove(ids[i]);
    }
    (w, ids)
}

fn world_fingerprint<G: ParRig>(w: &mut W<G>) -> (BTreeMap<(usize, u64), Vec<Option<u64>>>, Vec<u64>) {
    let rows = G::snapshot(w);
    let mut m = BTreeMap::new();
    for (id, comps) in rows {
        m.insert(parts(id), comps.iter().map(|c| c.map(|o| o.val)).collect());
    }
    (m, G::res_get(w).iter().map(|o| o.val).collect())
}

pub fn run_program<G: ParRig>(prog: Program<G>)
where
    W<G>: Clone,
{
    crate::alloc::tracked(|| run_program_inner(prog))
}

fn run_program_inner<G: ParRig>(prog: Program<G>) {
    let args = crate::cli::Args::parse();
    let seed = args.u64("seed", 1);
    let nworlds = args.u64("worlds", 20) as usize;
    let pools_only = args.u64("pools-only", 0) != 0;
    let hook_only = args.u64("hook-only", 0) != 0;
    let jitter = args.u64("jitter", 0);
    let mut out = Out::default();
    let mut rng = Rng::new(mix2(seed, 0x5c4ed));
    let groups = reference_groups(prog.tasks);
    let ntasks = prog.tasks.len();
    if args.cmd == "info" {
        println!("{{\"program\":\"{}\",\"tasks\":{},\"reference_groups\":{:?}}}", prog.name, ntasks, groups);
        return;
    }
    if args.cmd == "term" {
        // termination probe: run on one pool size and exit (the driver holds the watchdog)
        let pool = args.u64("pool", 0) as usize;
        let (mut w, ids) = make_world::<G>(args.u64("kind", 3) as usize, &mut rng);
        let ids = Arc::new(ids);
        brood::verif::rayon_shim::set_join_hook(None);
        let st = crate::par::pool(pool).install(|| (prog.run_schedule)(&mut w, &ids, 0));
        println!("{{\"program\":\"{}\",\"terminated\":true,\"pool_threads\":{},\"task_runs\":{:?}}}", prog.name, crate::par::POOL_SIZES[pool % crate::par::POOL_SIZES.len()], st.iter().map(|s| s.1).collect::<Vec<_>>());
        return;
    }
    if args.cmd == "faults" {
        run_faults::<G>(&prog, seed, nworlds, &args);
        return;
    }
    for wi in 0..nworlds {
        let kind = wi % 5;
        let (w0, ids) = make_world::<G>(kind, &mut rng);
        let ids = Arc::new(ids);
        out.worlds += 1;
        // sequential reference
        let mut wref = w0.clone();
        brood::verif::rayon_shim::set_join_hook(None);
        LOGS.lock().unwrap().clear();
        let st_ref = (prog.run_sequential)(&mut wref, &ids, 0);
        LOGS.lock().unwrap().clear();
        let fp_ref = world_fingerprint::<G>(&mut wref);
        let mut modes: Vec<Mode> = Vec::new();
        if !pools_only {
            modes.push(Mode::SerialAB);
            modes.push(Mode::SerialBA);
            for _ in 0..4 {
                modes.push(Mode::SerialRandom(rng.next()));
            }
        }
        for pi in 0..crate::par::POOL_SIZES.len() {
            if !hook_only && (pools_only || (wi + pi) % 3 == 0) {
                modes.push(Mode::Pool(pi));
            }
        }
        for mode in modes {
            let mut w = w0.clone();
            LOGS.lock().unwrap().clear();
            JOINS.store(0, Ordering::SeqCst);
            let hooked = !matches!(mode, Mode::Pool(_));
            match mode {
                Mode::SerialAB => ORDER.store(0, Ordering::SeqCst),
                Mode::SerialBA => ORDER.store(1, Ordering::SeqCst),
                Mode::SerialRandom(s) => {
                    ORDER.store(2, Ordering::SeqCst);
                    *DECISIONS.lock().unwrap() = Some(Rng::new(s));
                }
                Mode::Pool(_) => {}
            }
            let mname = match mode {
                Mode::SerialAB => "hook_serial_ab".to_string(),
                Mode::SerialBA => "hook_serial_ba".to_string(),
                Mode::SerialRandom(_) => "hook_serial_random".to_string(),
                Mode::Pool(i) => format!("rayon_pool_{}", crate::par::POOL_SIZES[i]),
            };
            *out.by_mode.entry(mname.clone()).or_insert(0) += 1;
            let st = if hooked {
                brood::verif::rayon_shim::set_join_hook(Some(join_hook));
                let st = (prog.run_schedule)(&mut w, &ids, 0);
                brood::verif::rayon_shim::set_join_hook(None);
                st
            } else {
                brood::verif::rayon_shim::set_join_hook(None);
                let Mode::Pool(pi) = mode else { unreachable!() };
                crate::par::pool(pi).install(|| (prog.run_schedule)(&mut w, &ids, jitter))
            };
            out.runs += 1;
            out.joins += JOINS.load(Ordering::SeqCst);
            let logs: Vec<TaskLog> = std::mem::take(&mut *LOGS.lock().unwrap());
            out.task_execs += logs.len() as u64;
            let ctx = format!("program={} world#{wi}({}, {} ids) mode={mname} seed={seed}", prog.name, world_kind_name(kind), ids.len());
            // C07: exactly once, same outcome as the sequential reference
            for t in 0..ntasks {
                let n = logs.iter().filter(|l| l.task == t).count();
                if n != 1 {
                    out.viols.push(("C07".into(), if n == 0 { "task_not_run".into() } else { "task_run_twice".into() }, format!("{ctx}: task {t} ({}) ran {n} times", prog.tasks[t].text)));
                }
            }
            let fp = world_fingerprint::<G>(&mut w);
            if fp != fp_ref {
                let mut diff = String::new();
                for (id, c) in &fp_ref.0 {
                    if fp.0.get(id) != Some(c) {
                        diff = format!("entity {id:?}: sequential {:x?}, schedule {:x?}", c, fp.0.get(id));
                        break;
                    }
                }
                if fp.1 != fp_ref.1 {
                    diff += &format!(" resources: sequential {:x?}, schedule {:x?}", fp_ref.1, fp.1);
                }
                out.viols.push(("C07".into(), "outcome_differs_from_sequential".into(), format!("{ctx}: {diff}")));
            }
            if st != st_ref {
                out.viols.push(("C07".into(), "system_state_differs_from_sequential".into(), format!("{ctx}: sequential {:x?}, schedule {:x?}", st_ref, st)));
            }
            if !hooked {
                continue;
            }
            // C08: logically parallel tasks must have conflict-free reach sets
            let mut by_task: BTreeMap<usize, &TaskLog> = BTreeMap::new();
            for l in &logs {
                by_task.insert(l.task, l);
                out.accesses_logged += l.reach.len() as u64;
            }
            let mut shape = String::new();
            for i in 0..ntasks {
                for j in (i + 1)..ntasks {
                    let (Some(a), Some(b)) = (by_task.get(&i), by_task.get(&j)) else { continue };
                    let par = logically_parallel(&a.path, &b.path);
                    shape.push(if par { 'p' } else { 's' });
                    if !par {
                        out.ordered_pairs += 1;
                        continue;
                    }
                    out.parallel_pairs_examined += 1;
                    // early start = parallel although the static grouping separates them
                    let same_group = groups.iter().any(|g| g.contains(&i) && g.contains(&j));
                    if !same_group {
                        out.early_starts += 1;
                    }
                    let mut wa: BTreeMap<usize, bool> = BTreeMap::new();
                    for x in &a.reach {
                        let e = wa.entry(x.addr).or_insert(false);
                        *e |= x.mutable;
                    }
                    let mut bad = None;
                    for y in &b.reach {
                        if let Some(&ma) = wa.get(&y.addr) {
                            if ma || y.mutable {
                                bad = Some(y.clone());
                                break;
                            }
                        }
                    }
                    match bad {
                        None => out.parallel_pairs_conflict_free += 1,
                        Some(y) => out.viols.push((
                            "C08".into(),
                            "parallel_tasks_share_data".into(),
                            format!(
                                "{ctx}: tasks {i} ({}) and {j} ({}) are logically parallel (paths {:?} / {:?}) but both reach address {:#x} ({} {}), at least one mutably",
                                prog.tasks[i].text,
                                prog.tasks[j].text,
                                a.path,
                                b.path,
                                y.addr,
                                match y.via {
                                    'i' => "component via iterator",
                                    'r' => "resource",
                                    _ => "component via entry views",
                                },
                                y.what
                            ),
                        )),
                    }
                }
            }
            out.dag_shapes.insert(format!("{}:{}", world_kind_name(kind), shape));
            let mut order: Vec<(u64, usize)> = logs.iter().map(|l| (l.start_seq, l.task)).collect();
            order.sort();
            out.start_orders.insert(order.iter().map(|o| o.1.to_string()).collect::<Vec<_>>().join(">"));
            // C12: on an empty world the DAG is the static staging
            if kind == 0 {
                out.empty_world_runs += 1;
                for g in &groups {
                    for (x, &i) in g.iter().enumerate() {
                        for &j in &g[x + 1..] {
                            out.same_group_pairs_checked += 1;
                            let (Some(a), Some(b)) = (by_task.get(&i), by_task.get(&j)) else { continue };
                            if !logically_parallel(&a.path, &b.path) {
                                out.viols.push((
                                    "C12".into(),
                                    "independent_tasks_serialised".into(),
                                    format!("{ctx}: tasks {i} ({}) and {j} ({}) have no conflicting access and are adjacent in one greedy group {:?}, but the schedule orders them (paths {:?} / {:?})", prog.tasks[i].text, prog.tasks[j].text, g, a.path, b.path),
                                ));
                            }
                        }
                    }
                }
            }
            // C12 on populated worlds: members of one reference group are either all run in their
            // own stage or started early (as add-ons) while the previous stage runs. Two members
            // with the same status must still be logically parallel with each other.
            if kind != 0 {
                for (gi, g) in groups.iter().enumerate() {
                    let prev: &[usize] = if gi > 0 { &groups[gi - 1] } else { &[] };
                    let early = |t: usize| -> bool {
                        prev.iter().any(|&p| match (by_task.get(&p), by_task.get(&t)) {
                            (Some(a), Some(b)) => logically_parallel(&a.path, &b.path),
                            _ => false,
                        })
                    };
                    for (x, &i) in g.iter().enumerate() {
                        for &j in &g[x + 1..] {
                            let (Some(a), Some(b)) = (by_task.get(&i), by_task.get(&j)) else { continue };
                            if early(i) != early(j) {
                                continue;
                            }
                            out.same_group_pairs_checked += 1;
                            if !logically_parallel(&a.path, &b.path) {
                                out.viols.push((
                                    "C12".into(),
                                    "independent_tasks_serialised".into(),
                                    format!(
                                        "{ctx}: tasks {i} ({}) and {j} ({}) have no conflicting access and are in one greedy group {:?} (both {}), but the schedule orders them (paths {:?} / {:?})",
                                        prog.tasks[i].text,
                                        prog.tasks[j].text,
                                        g,
                                        if early(i) { "started early beside the previous stage" } else { "run in their own stage" },
                                        a.path,
                                        b.path
                                    ),
                                ));
                            }
                        }
                    }
                }
            }
            if out.samples.len() < 2 && !logs.is_empty() && kind != 0 {
                out.samples.push(format!(
                    "{ctx}: fork/join paths {:?}; reach sizes {:?}; pair relation {shape}",
                    logs.iter().map(|l| (l.task, l.path.clone())).collect::<Vec<_>>(),
                    logs.iter().map(|l| (l.task, l.reach.len(), l.items)).collect::<Vec<_>>()
                ));
            }
        }
        drop(w0);
    }
    for e in crate::sink::drain() {
        let prop = if e.kind == "tracker_inconsistency" { "HARNESS" } else { "C08" };
        out.viols.push((prop.into(), format!("memory:{}", e.kind), e.detail));
    }
    let j = serde_json::json!({
        "monitor": "sched",
        "program": prog.name,
        "tasks": ntasks,
        "task_kinds": prog.tasks.iter().map(|t| if t.par { "ParSystem" } else { "System" }).collect::<Vec<_>>(),
        "reference_groups": groups,
        "cases": out.runs,
        "worlds": out.worlds,
        "joins_observed": out.joins,
        "task_executions": out.task_execs,
        "parallel_pairs_examined": out.parallel_pairs_examined,
        "parallel_pairs_conflict_free": out.parallel_pairs_conflict_free,
        "ordered_pairs": out.ordered_pairs,
        "early_started_pairs": out.early_starts,
        "empty_world_runs": out.empty_world_runs,
        "same_group_pairs_checked": out.same_group_pairs_checked,
        "accesses_logged": out.accesses_logged,
        "by_mode": out.by_mode,
        "dag_shapes_set": out.dag_shapes.iter().map(|s| format!("{}/{}", prog.name, s)).collect::<Vec<_>>(),
        "start_orders_set": out.start_orders.iter().map(|s| format!("{}/{}", prog.name, s)).collect::<Vec<_>>(),
        "samples": out.samples,
        "violations": out.viols.iter().map(|(p, s, d)| serde_json::json!({"prop": p, "sig": s, "detail": d})).collect::<Vec<_>>(),
    });
    crate::cli::write_out(&args.str("out", "-"), &j.to_string());
}


/// C17 for schedules: inject a panic into the k-th system-body callback (task start or item) of
/// `run_schedule`, on a real pool and under the serial join hook; afterwards read every stored
/// value, and drop the world. Double drops / use of dropped values / allocator events are violations.
fn run_faults<G: ParRig>(prog: &Program<G>, seed: u64, nworlds: usize, args: &crate::cli::Args) {
    use crate::fuse::{self, bit, Cb};
    use std::panic::{catch_unwind, AssertUnwindSafe};
    crate::deser::install_panic_recorder();
    let mut rng = Rng::new(mix2(seed, 0xfa17));
    let mut cases = 0u64;
    let mut fired = 0u64;
    let mut panics = 0u64;
    let mut viols: Vec<(String, String, String)> = Vec::new();
    let mut sigs: BTreeSet<String> = BTreeSet::new();
    let max_k = args.u64("max-k", 40);
    for wi in 0..nworlds {
        let kind = 1 + wi % 4;
        let (w0, ids) = make_world::<G>(kind, &mut rng);
        let ids = Arc::new(ids);
        // dry run: number of body callbacks
        let mut wd = w0.clone();
        brood::verif::rayon_shim::set_join_hook(Some(join_hook));
        ORDER.store(0, Ordering::SeqCst);
        fuse::count_start(bit(Cb::Body));
        let _ = (prog.run_schedule)(&mut wd, &ids, 0);
        let n = fuse::count_stop();
        brood::verif::rayon_shim::set_join_hook(None);
        drop(wd);
        let ks: Vec<u64> = if n <= max_k { (1..=n).collect() } else { (0..max_k).map(|i| 1 + i * n / max_k).collect() };
        for k in ks {
            for hooked in [true, false] {
                let sink0 = crate::sink::count();
                let mut w = w0.clone();
                cases += 1;
                let f0 = fuse::fired();
                if hooked {
                    brood::verif::rayon_shim::set_join_hook(Some(join_hook));
                    ORDER.store((k % 3) as u64, Ordering::SeqCst);
                    *DECISIONS.lock().unwrap() = Some(Rng::new(k));
                }
                fuse::arm(bit(Cb::Body), k);
                let r = catch_unwind(AssertUnwindSafe(|| {
                    if hooked {
                        (prog.run_schedule)(&mut w, &ids, 0)
                    } else {
                        crate::par::pool(3).install(|| (prog.run_schedule)(&mut w, &ids, 0))
                    }
                }));
                fuse::disarm();
                brood::verif::rayon_shim::set_join_hook(None);
                PATH.with(|p| p.borrow_mut().clear());
                LOGS.lock().unwrap().clear();
                if fuse::fired() != f0 {
                    fired += 1;
                }
                if r.is_err() {
                    panics += 1;
                }
                // aftermath: read everything, one more (unarmed) schedule run, drop
                let after = catch_unwind(AssertUnwindSafe(|| {
                    let _ = G::snapshot(&mut w);
                    let _ = (prog.run_sequential)(&mut w, &ids, 0);
                    let _ = G::snapshot(&mut w);
                    drop(w);
                }));
                LOGS.lock().unwrap().clear();
                let ctx = format!("program={} world#{wi}({}) k={k} mode={}", prog.name, world_kind_name(kind), if hooked { "hook_serial" } else { "rayon_pool_4" });
                if let Err(e) = after {
                    viols.push(("C17".into(), "unsafe_after_panic@World::run_schedule:Body".into(), format!("{ctx}: aftermath panicked: {}", crate::seq::panic_msg(&e))));
                }
                if crate::sink::count() != sink0 {
                    for e in crate::sink::drain() {
                        let prop = if e.kind == "tracker_inconsistency" { "HARNESS" } else { "C17" };
                        viols.push((prop.into(), "unsafe_after_panic@World::run_schedule:Body".into(), format!("{ctx}: after a panic in a system body: {} ({})", e.kind, e.detail)));
                    }
                }
                sigs.insert(format!("{}|{}|hooked={hooked}|panicked={}", prog.name, world_kind_name(kind), r.is_err()));
            }
        }
    }
    let _ = std::panic::take_hook();
    let j = serde_json::json!({
        "monitor": "sched-faults",
        "program": prog.name,
        "cases": cases,
        "fuses_fired": fired,
        "panics_caught": panics,
        "sigs_set": sigs.iter().cloned().collect::<Vec<_>>(),
        "by_op": {"World::run_schedule": cases},
        "samples": [format!("{}: panic injected at body callback k of run_schedule ({} cases, {} fired), serial hook and 4-thread pool", prog.name, cases, fired)],
        "violations": viols.iter().map(|(p, s, d)| serde_json::json!({"prop": p, "sig": s, "detail": d})).collect::<Vec<_>>(),
    });
    crate::cli::write_out(&args.str("out", "-"), &j.to_string());
}
