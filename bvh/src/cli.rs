//! Command line front end shared by all rig binaries: `<rig> <monitor> [--key value]...`.

use crate::rig::ParRig;
use crate::seq;
use std::collections::BTreeMap;

pub struct Args {
    pub cmd: String,
    pub kv: BTreeMap<String, String>,
}

impl Args {
    pub fn parse() -> Args {
        let mut it = std::env::args().skip(1);
        let cmd = it.next().unwrap_or_else(|| "help".to_string());
        let mut kv = BTreeMap::new();
        while let Some(k) = it.next() {
            let k = k.trim_start_matches("--").to_string();
            let v = it.next().unwrap_or_default();
            kv.insert(k, v);
        }
        Args { cmd, kv }
    }
    pub fn u64(&self, k: &str, d: u64) -> u64 {
        self.kv.get(k).and_then(|v| v.parse().ok()).unwrap_or(d)
    }
    pub fn str(&self, k: &str, d: &str) -> String {
        self.kv.get(k).cloned().unwrap_or_else(|| d.to_string())
    }
}

pub fn write_out(path: &str, text: &str) {
    if path == "-" || path.is_empty() {
        println!("{text}");
    } else {
        std::fs::write(path, text).expect("write report");
    }
}

pub fn main<G: ParRig>() {
    // Everything the harness itself allocates is untracked; monitors switch tracking on around the
    // windows they measure.
    crate::alloc::untracked(|| {
        let args = Args::parse();
        match args.cmd.as_str() {
            "seq" => seq_main::<G>(&args),
            "deser" => deser_main::<G>(&args),
            "faults" => faults_main::<G>(&args),
            "info" => {
                println!(
                    "{{\"rig\":\"{}\",\"components\":{},\"resources\":{},\"shapes\":{},\"queries\":{},\"alloc_tracking\":{}}}",
                    G::NAME,
                    G::N,
                    G::NRES,
                    G::SHAPES.len(),
                    G::QUERIES.len(),
                    crate::alloc::enabled()
                );
            }
            other => {
                eprintln!("unknown monitor {other:?}; available: seq, info");
                std::process::exit(2);
            }
        }
    })
}

fn seq_main<G: ParRig>(args: &Args) {
    let out = args.str("out", "-");
    if let Some(path) = args.kv.get("replay") {
        let text = std::fs::read_to_string(path).expect("read replay");
        let rp: seq::Replay = serde_json::from_str(&text).expect("parse replay");
        let profile = seq::profile(&rp.profile);
        let viols = seq::run_ops::<G>(&rp.ops, &profile);
        let rep = seq::RunReport {
            rig: G::NAME.into(),
            profile: rp.profile.clone(),
            seed: rp.seed,
            stats: Default::default(),
            violations: viols,
            replay: None,
            alloc_tracking: crate::alloc::enabled(),
            samples: vec![],
        };
        write_out(&out, &serde_json::to_string(&rep).unwrap());
        return;
    }
    let seed = args.u64("seed", 1);
    let histories = args.u64("histories", 10);
    let nops = args.u64("ops", 300) as usize;
    let pname = args.str("profile", "general");
    let trace = args.u64("trace", 0) != 0;
    let do_shrink = args.u64("shrink", 1) != 0;
    let mut profile = seq::profile(&pname);
    if let Some(m) = args.kv.get("max-entities").and_then(|v| v.parse().ok()) {
        profile.max_entities = m;
    }
    let check_every = args.u64("check-every", 1);
    let mut stats = seq::Stats::default();
    let mut all_viols: Vec<seq::Viol> = Vec::new();
    let mut per_sig: BTreeMap<(String, String), u32> = BTreeMap::new();
    let mut replay = None;
    let mut samples = Vec::new();
    if trace {
        // Used after a crash: print every op before executing it.
        let hseed = args.u64("hseed", seed);
        trace_history::<G>(hseed, &profile, nops);
        return;
    }
    for h in 0..histories {
        let hseed = crate::prng::mix2(seed, h);
        // progress marker (so that a crash can be attributed and re-run with --trace)
        eprintln!("HISTORY rig={} profile={} hseed={} ops={}", G::NAME, pname, hseed, nops);
        let (viols, oplog) = seq::run_history::<G>(hseed, &profile, nops, check_every, &mut stats);
        if samples.len() < 2 && oplog.len() > 8 {
            let k = (h as usize * 7) % (oplog.len() - 6);
            samples.push(format!("history hseed={hseed}: ... {:?}", &oplog[k..k + 5]));
        }
        if !viols.is_empty() {
            let focus = args.str("focus", "");
            let cand = viols.iter().find(|v| focus.is_empty() || (v.prop == focus && (args.str("focus-sig", "").is_empty() || v.sig == args.str("focus-sig", ""))));
            if let (true, Some(first)) = (replay.is_none(), cand) {
                let cut = (first.op_index + 1).min(oplog.len());
                let mut ops = oplog[..cut].to_vec();
                if first.sig == "memory_not_returned" {
                    ops = oplog.clone();
                }
                if do_shrink && first.sig != "panic" {
                    ops = seq::shrink::<G>(&ops, &profile, &first.prop, &first.sig, 400);
                }
                replay = Some(seq::Replay { rig: G::NAME.into(), profile: pname.clone(), seed: hseed, ops, violations: viols.clone() });
            }
            // keep at most 5 reports per (property, signature): a recurring known finding must not
            // cut the shard short
            for v in viols {
                let n = per_sig.entry((v.prop.clone(), v.sig.clone())).or_insert(0u32);
                *n += 1;
                if *n <= 5 {
                    all_viols.push(v);
                }
            }
            if all_viols.len() > 200 {
                break;
            }
        }
    }
    let rep = seq::RunReport {
        rig: G::NAME.into(),
        profile: pname,
        seed,
        stats,
        violations: all_viols,
        replay,
        alloc_tracking: crate::alloc::enabled(),
        samples,
    };
    write_out(&out, &serde_json::to_string(&rep).unwrap());
}

fn trace_history<G: ParRig>(hseed: u64, profile: &seq::Profile, nops: usize) {
    use std::io::Write;
    let mut h = seq::Hist::<G>::new(hseed, profile.clone());
    for i in 0..nops {
        let op = h.gen_op();
        println!("TRACE {i} {}", serde_json::to_string(&op).unwrap());
        let _ = std::io::stdout().flush();
        if !h.step(op) {
            break;
        }
    }
    h.finish();
    println!("TRACE-END violations={}", h.viols.len());
}

fn deser_main<G: ParRig>(args: &Args) {
    let seed = args.u64("seed", 1);
    let run = crate::alloc::tracked(|| crate::deser::run::<G>(
        seed,
        args.u64("worlds", 20) as usize,
        args.u64("mutants", 40) as usize,
        args.u64("exhaustive", 1) as usize,
        args.u64("followup", 30) as usize,
    ));
    let mut j = serde_json::to_value(&run.stats).unwrap();
    let o = j.as_object_mut().unwrap();
    o.insert("monitor".into(), "deser".into());
    o.insert("rig".into(), G::NAME.into());
    o.insert("seed".into(), seed.into());
    o.insert("samples".into(), serde_json::to_value(&run.samples).unwrap());
    o.insert("sigs_set".into(), serde_json::to_value(run.sigs()).unwrap());
    o.insert("violations".into(), serde_json::to_value(&run.violations_json()).unwrap());
    o.insert("replay".into(), serde_json::to_value(&run.first_failing_input).unwrap());
    write_out(&args.str("out", "-"), &j.to_string());
}

fn faults_main<G: ParRig>(args: &Args) {
    let seed = args.u64("seed", 1);
    let skip: Vec<String> = args.str("skip", "").split(';').filter(|s| !s.is_empty()).map(|s| s.to_string()).collect();
    let only: Vec<String> = args.str("only", "").split(';').filter(|s| !s.is_empty()).map(|s| s.to_string()).collect();
    // worker threads of the rayon pools are always tracked; keep the main thread consistent
    let run = crate::alloc::tracked(|| crate::faults::run::<G>(seed, args.u64("worlds", 3) as usize, args.u64("max-k", 64), &skip, &only, args.u64("op-limit", 0) as usize, args.u64("scene-ops", 14) as usize));
    let mut j = serde_json::to_value(&run.stats).unwrap();
    let o = j.as_object_mut().unwrap();
    o.insert("monitor".into(), "faults".into());
    o.insert("rig".into(), G::NAME.into());
    o.insert("seed".into(), seed.into());
    o.insert("samples".into(), serde_json::to_value(&run.samples).unwrap());
    o.insert("violations".into(), serde_json::to_value(&run.viols).unwrap());
    write_out(&args.str("out", "-"), &j.to_string());
}
