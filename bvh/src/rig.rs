//! A "rig" is a concrete registry + resource list with macro/generator-produced typed dispatch,
//! so that generic monitors can drive brood's type-level API from run-time descriptions.

use crate::payload::{Kind, Obs, Payload};
use brood::entity::Identifier;
use brood::{registry, resource, World};

pub type W<G> = World<<G as Rig>::Reg, <G as Rig>::Res>;

#[derive(Clone, Copy, Debug, PartialEq, Eq, Hash)]
pub enum VK {
    Ref,
    Mut,
    OptRef,
    OptMut,
}
impl VK {
    pub fn mutable(self) -> bool {
        matches!(self, VK::Mut | VK::OptMut)
    }
    pub fn optional(self) -> bool {
        matches!(self, VK::OptRef | VK::OptMut)
    }
}

#[derive(Clone, Copy, Debug, PartialEq, Eq, Hash)]
pub enum ViewD {
    Comp(usize, VK),
    Id,
}

#[derive(Clone, Copy, Debug, PartialEq, Eq, Hash)]
pub enum FilterD {
    None,
    Has(usize),
    Not(&'static FilterD),
    And(&'static FilterD, &'static FilterD),
    Or(&'static FilterD, &'static FilterD),
    /// A list of views used as a filter.
    Views(&'static [ViewD]),
}

impl FilterD {
    pub fn eval(&self, shape: u32) -> bool {
        match *self {
            FilterD::None => true,
            FilterD::Has(k) => shape & (1 << k) != 0,
            FilterD::Not(f) => !f.eval(shape),
            FilterD::And(a, b) => a.eval(shape) && b.eval(shape),
            FilterD::Or(a, b) => a.eval(shape) || b.eval(shape),
            FilterD::Views(vs) => views_match(vs, shape),
        }
    }
    pub fn ctor_names(&self, out: &mut std::collections::BTreeSet<&'static str>) {
        match *self {
            FilterD::None => {
                out.insert("None");
            }
            FilterD::Has(_) => {
                out.insert("Has");
            }
            FilterD::Not(f) => {
                out.insert("Not");
                f.ctor_names(out);
            }
            FilterD::And(a, b) => {
                out.insert("And");
                a.ctor_names(out);
                b.ctor_names(out);
            }
            FilterD::Or(a, b) => {
                out.insert("Or");
                a.ctor_names(out);
                b.ctor_names(out);
            }
            FilterD::Views(_) => {
                out.insert("Views");
            }
        }
    }
}

/// Does an entity of `shape` contain every non-optional viewed component?
pub fn views_match(vs: &[ViewD], shape: u32) -> bool {
    vs.iter().all(|v| match *v {
        ViewD::Comp(k, vk) => vk.optional() || shape & (1 << k) != 0,
        ViewD::Id => true,
    })
}

#[derive(Clone, Copy, Debug)]
pub struct SubD {
    pub views: &'static [ViewD],
    pub filter: FilterD,
}

#[derive(Clone, Copy, Debug)]
pub struct QDesc {
    pub name: &'static str,
    pub views: &'static [ViewD],
    pub filter: FilterD,
    /// (resource index, mutable)
    pub res_views: &'static [(usize, bool)],
    pub entry_views: &'static [ViewD],
    pub subs: &'static [SubD],
}

/// One observed component access.
#[derive(Clone, Copy, Debug, PartialEq, Eq)]
pub struct CompObs {
    pub k: usize,
    /// `None`: an `Option` view that was `None`.
    pub old: Option<Obs>,
    /// Value written through a mutable view.
    pub new: Option<u64>,
    pub addr: usize,
    pub mutable: bool,
}

#[derive(Clone, Debug, Default, PartialEq, Eq)]
pub struct Item {
    pub id: Option<Identifier>,
    pub comps: Vec<CompObs>,
}

#[derive(Clone, Debug, PartialEq, Eq)]
pub struct SubObs {
    pub target: usize,
    pub sub: usize,
    /// `None` if the entry query returned `None`.
    pub item: Option<Item>,
    /// Position in the iteration (number of items yielded so far) at which this was done.
    pub at_item: usize,
}

#[derive(Clone, Copy, Debug, PartialEq, Eq)]
pub enum IterMode {
    /// `next()` until `None`, `size_hint` before every call, one extra `next()` after the end.
    Next,
    /// `for_each` (fold).
    Fold,
    /// `split` calls of `next()`, then `for_each` on the rest.
    Mixed(usize),
    /// Do not iterate at all (drop the iterator).
    Skip,
}

/// Context threaded through a generated query function: inputs and recorded observations.
pub struct QCtx {
    pub mode: IterMode,
    /// Write through mutable views?
    pub write: bool,
    next_fresh: u64,
    /// Value written to non-identity payloads by this query.
    pub uniform: u64,
    pub entry_targets: Vec<Identifier>,
    /// Do the entry pass when this many items have been yielded (`usize::MAX`: only afterwards).
    pub interleave_at: usize,
    pub items: Vec<Item>,
    /// (low, high, number of items already yielded) before each `next()`.
    pub hints: Vec<(usize, Option<usize>, usize)>,
    pub next_after_end_was_none: Option<bool>,
    pub res: Vec<(usize, Obs, Option<u64>, usize)>,
    pub entry_none: Vec<(usize, usize)>,
    pub subs: Vec<SubObs>,
    /// Result of a parallel `count()` (only the number of results is known).
    pub counted: Option<usize>,
    /// The consumer may stop early: the items are a subset of the expected results.
    pub subset: bool,
    cur: Item,
    cur_target: usize,
    cur_sub: usize,
}

impl QCtx {
    pub fn new(mode: IterMode, write: bool, fresh_base: u64, uniform: u64) -> Self {
        QCtx {
            mode,
            write,
            next_fresh: fresh_base,
            uniform,
            entry_targets: Vec::new(),
            interleave_at: usize::MAX,
            items: Vec::new(),
            hints: Vec::new(),
            next_after_end_was_none: None,
            res: Vec::new(),
            entry_none: Vec::new(),
            subs: Vec::new(),
            counted: None,
            subset: false,
            cur: Item::default(),
            cur_target: 0,
            cur_sub: 0,
        }
    }
    pub fn fresh_end(&self) -> u64 {
        self.next_fresh
    }
    fn new_val<P: Payload>(&mut self) -> u64 {
        if P::IDENT {
            let v = self.next_fresh;
            self.next_fresh += 1;
            v
        } else {
            P::norm(self.uniform)
        }
    }
    pub fn item_begin(&mut self) {
        crate::fuse::hit(crate::fuse::Cb::Body);
        self.cur = Item::default();
    }
    pub fn item_end(&mut self) {
        let it = std::mem::take(&mut self.cur);
        self.items.push(it);
    }
    pub fn see_id(&mut self, id: Identifier) {
        self.cur.id = Some(id);
    }
    pub fn see<P: Payload>(&mut self, k: usize, p: &P) {
        let o = p.obs("view &");
        self.cur.comps.push(CompObs { k, old: Some(o), new: None, addr: p.addr(), mutable: false });
    }
    pub fn see_mut<P: Payload>(&mut self, k: usize, p: &mut P) {
        let o = p.obs("view &mut");
        let addr = p.addr();
        let new = if self.write {
            let v = self.new_val::<P>();
            p.set(v);
            Some(v)
        } else {
            None
        };
        self.cur.comps.push(CompObs { k, old: Some(o), new, addr, mutable: true });
    }
    pub fn see_opt<P: Payload>(&mut self, k: usize, p: Option<&P>) {
        match p {
            Some(p) => self.see(k, p),
            None => self.cur.comps.push(CompObs { k, old: None, new: None, addr: 0, mutable: false }),
        }
    }
    pub fn see_opt_mut<P: Payload>(&mut self, k: usize, p: Option<&mut P>) {
        match p {
            Some(p) => self.see_mut(k, p),
            None => self.cur.comps.push(CompObs { k, old: None, new: None, addr: 0, mutable: true }),
        }
    }
    pub fn hint(&mut self, h: (usize, Option<usize>)) {
        self.hints.push((h.0, h.1, self.items.len()));
    }
    pub fn see_res<P: Payload>(&mut self, r: usize, p: &P) {
        let o = p.obs("resource view &");
        self.res.push((r, o, None, p.addr()));
    }
    pub fn see_res_mut<P: Payload>(&mut self, r: usize, p: &mut P) {
        let o = p.obs("resource view &mut");
        let addr = p.addr();
        let new = if self.write {
            let v = self.new_val::<P>();
            p.set(v);
            Some(v)
        } else {
            None
        };
        self.res.push((r, o, new, addr));
    }
    pub fn entry_missing(&mut self, target: usize) {
        self.entry_none.push((target, self.items.len()));
    }
    pub fn sub_begin(&mut self, target: usize, sub: usize) {
        self.cur_target = target;
        self.cur_sub = sub;
        self.cur = Item::default();
    }
    pub fn sub_none(&mut self) {
        self.subs.push(SubObs { target: self.cur_target, sub: self.cur_sub, item: None, at_item: self.items.len() });
    }
    pub fn sub_some(&mut self) {
        let it = std::mem::take(&mut self.cur);
        self.subs.push(SubObs { target: self.cur_target, sub: self.cur_sub, item: Some(it), at_item: self.items.len() });
    }
}

/// A snapshot row: identifier + per registry component `Option<Obs>`.
pub type Row = (Identifier, Vec<Option<Obs>>);

pub trait Rig: 'static + Sized {
    type Reg: registry::Registry
        + registry::Clone
        + registry::PartialEq
        + registry::Debug
        + registry::Serialize
        + for<'de> registry::Deserialize<'de>
        + Send
        + Sync;
    type Res: resource::Resources
        + Clone
        + PartialEq
        + resource::Debug
        + resource::Serialize
        + for<'de> resource::Deserialize<'de>
        + Send
        + Sync;

    const NAME: &'static str;
    /// Number of components in the registry.
    const N: usize;
    const KINDS: &'static [Kind];
    /// Payload type tag K per component.
    const TAGS: &'static [u32];
    const NRES: usize;
    const RES_TAGS: &'static [u32];
    /// Shapes (bit k = component k) with typed insert/extend/reserve dispatch, and the number of
    /// component orders available for each.
    const SHAPES: &'static [(u32, u8)];
    const QUERIES: &'static [QDesc];
    /// Resource view lists available to `view_resources`: each a list of (resource, mutable).
    const RES_VIEWS: &'static [&'static [(usize, bool)]];

    fn norm(k: usize, val: u64) -> u64;
    fn ident(k: usize) -> bool {
        !matches!(Self::KINDS[k], Kind::Small | Kind::Zst)
    }
    fn new_world(res_vals: &[u64]) -> W<Self>;
    fn insert(w: &mut W<Self>, shape: u32, order: u8, vals: &[u64]) -> Identifier;
    /// `rows[r][k]` is the value of component k in row r. `form` selects how the batch is built
    /// (0: `Batch::new` over `Vec`s with `slack` spare capacity; 1: `entities!` row macro when the
    /// row count has a generated arm, else as 0).
    fn extend(w: &mut W<Self>, shape: u32, order: u8, rows: &[Vec<u64>], slack: usize, form: u8) -> Vec<Identifier>;
    fn reserve(w: &mut W<Self>, shape: u32, order: u8, additional: usize);
    /// `World::entry(id)` then `add`; returns false if the entry was `None`.
    fn entry_add(w: &mut W<Self>, id: Identifier, k: usize, val: u64) -> bool;
    fn entry_remove(w: &mut W<Self>, id: Identifier, k: usize) -> bool;
    /// Several adds / removes through ONE `Entry` handle (`(k, Some(val))` = add, `(k, None)` = remove).
    fn entry_multi(w: &mut W<Self>, id: Identifier, steps: &[(usize, Option<u64>)]) -> bool;
    /// Full content through one all-optional query.
    fn snapshot(w: &mut W<Self>) -> Vec<Row>;
    /// One entity through `World::entry(id).query(all optional views)`; `None` if no entry.
    fn entry_snapshot(w: &mut W<Self>, id: Identifier) -> Option<Row>;
    fn res_get(w: &W<Self>) -> Vec<Obs>;
    fn res_set(w: &mut W<Self>, r: usize, val: u64) -> Obs;
    fn res_view(w: &mut W<Self>, vi: usize, cx: &mut QCtx);
    fn run_query(w: &mut W<Self>, qi: usize, cx: &mut QCtx);
    /// `World::entry(id).query(Query::<views, filter>)` of query `qi`; false if no entry;
    /// the item (or none) is recorded as sub observation (target 0, sub 0).
    fn run_entry_query(w: &mut W<Self>, qi: usize, id: Identifier, cx: &mut QCtx) -> bool;
}

/// Build one batch column for component `k` from row-major values, with spare capacity.
pub fn col<P: Payload>(rows: &[Vec<u64>], k: usize, slack: usize) -> Vec<P> {
    let mut v = Vec::with_capacity(rows.len() + slack);
    for r in rows {
        v.push(P::make(r[k]));
    }
    v
}

pub fn parts(id: Identifier) -> (usize, u64) {
    brood::verif::identifier_parts(id)
}
pub fn ident(p: (usize, u64)) -> Identifier {
    brood::verif::identifier_from_parts(p.0, p.1)
}

// ---------------------------------------------------------------------------------------------
// Parallel observation context (C09): shared by the closures of one parallel iteration.

use std::sync::atomic::{AtomicU64, AtomicUsize, Ordering};
use std::sync::Mutex;

pub struct ParCtx {
    pub write: bool,
    fresh: AtomicU64,
    pub uniform: u64,
    items: Mutex<Vec<Item>>,
    threads: Mutex<std::collections::HashSet<std::thread::ThreadId>>,
    /// Perturbation: every n-th item yields / spins (0 = never).
    pub jitter: u64,
    seen: AtomicUsize,
    /// For `find_any`: stop (return true) at the n-th observed item.
    pub stop_at: usize,
}

impl ParCtx {
    pub fn new(write: bool, fresh_base: u64, uniform: u64, jitter: u64, stop_at: usize) -> Self {
        ParCtx {
            write,
            fresh: AtomicU64::new(fresh_base),
            uniform,
            items: Mutex::new(Vec::new()),
            threads: Mutex::new(Default::default()),
            jitter,
            seen: AtomicUsize::new(0),
            stop_at,
        }
    }
    pub fn item(&self) -> ParItem<'_> {
        crate::fuse::hit(crate::fuse::Cb::Body);
        let n = self.seen.fetch_add(1, Ordering::Relaxed);
        if self.jitter > 0 && (n as u64) % self.jitter == 0 {
            if n % 3 == 0 {
                std::thread::yield_now();
            } else {
                for _ in 0..200 {
                    std::hint::spin_loop();
                }
            }
        }
        ParItem { cx: self, cur: Item::default(), n }
    }
    pub fn push(&self, it: Item) {
        self.items.lock().unwrap().push(it);
        self.threads.lock().unwrap().insert(std::thread::current().id());
    }
    pub fn take_items(&self) -> Vec<Item> {
        std::mem::take(&mut *self.items.lock().unwrap())
    }
    pub fn threads_seen(&self) -> usize {
        self.threads.lock().unwrap().len()
    }
    pub fn fresh_end(&self) -> u64 {
        self.fresh.load(Ordering::Relaxed)
    }
}

pub struct ParItem<'a> {
    cx: &'a ParCtx,
    cur: Item,
    n: usize,
}

impl<'a> ParItem<'a> {
    fn new_val<P: Payload>(&self) -> u64 {
        if P::IDENT {
            self.cx.fresh.fetch_add(1, Ordering::Relaxed)
        } else {
            P::norm(self.cx.uniform)
        }
    }
    pub fn see_id(&mut self, id: Identifier) {
        self.cur.id = Some(id);
    }
    pub fn see<P: Payload>(&mut self, k: usize, p: &P) {
        let o = p.obs("par view &");
        self.cur.comps.push(CompObs { k, old: Some(o), new: None, addr: p.addr(), mutable: false });
    }
    pub fn see_mut<P: Payload>(&mut self, k: usize, p: &mut P) {
        let o = p.obs("par view &mut");
        let addr = p.addr();
        let new = if self.cx.write {
            let v = self.new_val::<P>();
            p.set(v);
            Some(v)
        } else {
            None
        };
        self.cur.comps.push(CompObs { k, old: Some(o), new, addr, mutable: true });
    }
    pub fn see_opt<P: Payload>(&mut self, k: usize, p: Option<&P>) {
        match p {
            Some(p) => self.see(k, p),
            None => self.cur.comps.push(CompObs { k, old: None, new: None, addr: 0, mutable: false }),
        }
    }
    pub fn see_opt_mut<P: Payload>(&mut self, k: usize, p: Option<&mut P>) {
        match p {
            Some(p) => self.see_mut(k, p),
            None => self.cur.comps.push(CompObs { k, old: None, new: None, addr: 0, mutable: true }),
        }
    }
    /// Finish: the item itself (for `map`), also telling whether `find_any` should stop here.
    pub fn done(self) -> (Item, bool) {
        let stop = self.n + 1 >= self.cx.stop_at;
        (self.cur, stop)
    }
    pub fn finish(self) -> bool {
        let cx = self.cx;
        let (it, stop) = self.done();
        cx.push(it);
        stop
    }
}

/// How a parallel iterator is consumed.
#[derive(Clone, Copy, Debug, PartialEq, Eq)]
pub enum Consumer {
    ForEach,
    MapCollect,
    Count,
    AnyFalse,
    FindAny,
}
pub const CONSUMERS: [Consumer; 5] = [Consumer::ForEach, Consumer::MapCollect, Consumer::Count, Consumer::AnyFalse, Consumer::FindAny];

/// Parallel members of a rig (subset of `Rig::QUERIES`, same indices).
pub trait ParRig: Rig {
    const NPAR: usize;
    /// `par_query` of query `qi` consumed by `consumer`; `qcx` receives resource / entry
    /// observations; returns the `count()` for `Consumer::Count`.
    fn run_par_query(w: &mut W<Self>, qi: usize, cx: &ParCtx, qcx: &mut QCtx, consumer: Consumer) -> usize;
    /// `run_par_system` with a `ParSystem` over the same views (for_each body).
    fn run_par_system(w: &mut W<Self>, qi: usize, cx: &ParCtx, qcx: &mut QCtx);
    /// `run_system` with a `System` over the same views.
    fn run_system(w: &mut W<Self>, qi: usize, qcx: &mut QCtx);
}
