//! Small deterministic PRNG (splitmix64 / xoshiro256**). No external crates.

#[derive(Clone, Debug)]
pub struct Rng {
    s: [u64; 4],
}

pub fn splitmix(x: &mut u64) -> u64 {
    *x = x.wrapping_add(0x9E37_79B9_7F4A_7C15);
    let mut z = *x;
    z = (z ^ (z >> 30)).wrapping_mul(0xBF58_476D_1CE4_E5B9);
    z = (z ^ (z >> 27)).wrapping_mul(0x94D0_49BB_1331_11EB);
    z ^ (z >> 31)
}

pub fn mix2(a: u64, b: u64) -> u64 {
    let mut x = a ^ b.rotate_left(32) ^ 0xA076_1D64_78BD_642F;
    splitmix(&mut x)
}

impl Rng {
    pub fn new(seed: u64) -> Self {
        let mut x = seed;
        let s = [
            splitmix(&mut x),
            splitmix(&mut x),
            splitmix(&mut x),
            splitmix(&mut x),
        ];
        Rng { s }
    }
    pub fn next(&mut self) -> u64 {
        let r = self.s[1].wrapping_mul(5).rotate_left(7).wrapping_mul(9);
        let t = self.s[1] << 17;
        self.s[2] ^= self.s[0];
        self.s[3] ^= self.s[1];
        self.s[1] ^= self.s[2];
        self.s[0] ^= self.s[3];
        self.s[2] ^= t;
        self.s[3] = self.s[3].rotate_left(45);
        r
    }
    /// Uniform in 0..n (n > 0).
    pub fn below(&mut self, n: usize) -> usize {
        debug_assert!(n > 0);
        (self.next() % (n as u64)) as usize
    }
    pub fn chance(&mut self, num: u32, den: u32) -> bool {
        (self.next() % (den as u64)) < num as u64
    }
    pub fn pick<'a, T>(&mut self, xs: &'a [T]) -> &'a T {
        &xs[self.below(xs.len())]
    }
    /// Weighted choice: returns index.
    pub fn weighted(&mut self, weights: &[u32]) -> usize {
        let total: u64 = weights.iter().map(|&w| w as u64).sum();
        debug_assert!(total > 0);
        let mut r = self.next() % total;
        for (i, &w) in weights.iter().enumerate() {
            if r < w as u64 {
                return i;
            }
            r -= w as u64;
        }
        weights.len() - 1
    }
    pub fn shuffle<T>(&mut self, xs: &mut [T]) {
        for i in (1..xs.len()).rev() {
            let j = self.below(i + 1);
            xs.swap(i, j);
        }
    }
    pub fn fork(&mut self) -> Rng {
        Rng::new(self.next())
    }
}
