//! Structural audit of a `World` (C13) over the plain-data dump produced by the `verif_dump` hook.
//! The invariants live here, not in brood.

use brood::verif::Dump;
use std::collections::{HashMap, HashSet};

#[derive(Clone, Debug, Default)]
pub struct AuditStats {
    pub slots: usize,
    pub active: usize,
    pub free: usize,
    pub archetypes: usize,
    pub empty_archetypes: usize,
    pub rows: usize,
    pub dup_foreign_keys: usize,
}

/// Returns Err(description) on the first violated invariant.
pub fn audit(d: &Dump) -> Result<AuditStats, String> {
    let mut st = AuditStats::default();
    let idbytes = (d.registry_len + 7) / 8;
    st.slots = d.slots.len();
    st.free = d.free.len();
    st.archetypes = d.archetypes.len();

    // archetypes: unique identifier bytes, unique addresses, column count = popcount
    let mut by_addr: HashMap<usize, usize> = HashMap::new();
    let mut by_bytes: HashMap<&[u8], usize> = HashMap::new();
    let mut rows_total = 0usize;
    for (ai, a) in d.archetypes.iter().enumerate() {
        if a.identifier_bytes.len() != idbytes {
            return Err(format!("archetype {ai}: identifier has {} bytes, registry needs {idbytes}", a.identifier_bytes.len()));
        }
        if by_addr.insert(a.identifier_address, ai).is_some() {
            return Err(format!("two archetypes share identifier address {:#x}", a.identifier_address));
        }
        if let Some(prev) = by_bytes.insert(&a.identifier_bytes[..], ai) {
            return Err(format!(
                "entities with the same component set are split over two tables: archetypes {prev} and {ai} both have identifier {:?}",
                a.identifier_bytes
            ));
        }
        let pop: u32 = a.identifier_bytes.iter().map(|b| b.count_ones()).sum();
        if pop as usize != a.columns.len() {
            return Err(format!("archetype {:?}: {} columns for {} identified components", a.identifier_bytes, a.columns.len(), pop));
        }
        // padding bits beyond the registry length must be zero
        if d.registry_len % 8 != 0 && idbytes > 0 {
            let last = a.identifier_bytes[idbytes - 1];
            if last >> (d.registry_len % 8) != 0 {
                return Err(format!("archetype {:?}: padding bits set in identifier", a.identifier_bytes));
            }
        }
        if a.entity_identifiers.len() != a.length {
            return Err(format!("archetype {:?}: {} identifiers for length {}", a.identifier_bytes, a.entity_identifiers.len(), a.length));
        }
        if a.entity_identifiers_capacity < a.length {
            return Err(format!("archetype {:?}: identifier column capacity {} < length {}", a.identifier_bytes, a.entity_identifiers_capacity, a.length));
        }
        rows_total += a.length;
        if a.length == 0 {
            st.empty_archetypes += 1;
        }
    }
    st.rows = rows_total;

    // slots -> rows
    let mut active = 0usize;
    for (si, s) in d.slots.iter().enumerate() {
        if let Some((addr, index)) = s.location {
            active += 1;
            let ai = match by_addr.get(&addr) {
                Some(ai) => *ai,
                None => {
                    return Err(format!(
                        "slot {si} (generation {}) refers to archetype identifier {:#x} which is not one of this world's archetypes",
                        s.generation, addr
                    ))
                }
            };
            let a = &d.archetypes[ai];
            if index >= a.length {
                return Err(format!("slot {si}: row index {index} >= archetype {:?} length {}", a.identifier_bytes, a.length));
            }
            if a.entity_identifiers[index] != (si, s.generation) {
                return Err(format!(
                    "slot {si} generation {} points at row {index} of archetype {:?}, which stores identifier {:?}",
                    s.generation, a.identifier_bytes, a.entity_identifiers[index]
                ));
            }
        }
    }
    st.active = active;

    // rows -> slots, each identifier once
    let mut seen_rows: HashSet<(usize, u64)> = HashSet::new();
    for a in &d.archetypes {
        for (ri, &(idx, gen)) in a.entity_identifiers.iter().enumerate() {
            if !seen_rows.insert((idx, gen)) {
                return Err(format!("identifier ({idx},{gen}) is attached to two stored rows"));
            }
            match d.slots.get(idx) {
                None => return Err(format!("row {ri} of archetype {:?} stores identifier ({idx},{gen}) beyond the {} slots", a.identifier_bytes, d.slots.len())),
                Some(s) => {
                    if s.generation != gen || s.location.is_none() {
                        return Err(format!(
                            "row {ri} of archetype {:?} stores identifier ({idx},{gen}) but slot {idx} is generation {} active={}",
                            a.identifier_bytes,
                            s.generation,
                            s.location.is_some()
                        ));
                    }
                    let (addr, index) = s.location.unwrap();
                    if addr != a.identifier_address || index != ri {
                        return Err(format!(
                            "row {ri} of archetype {:?} stores identifier ({idx},{gen}) but its slot points elsewhere (row {index})",
                            a.identifier_bytes
                        ));
                    }
                }
            }
        }
    }

    // free list = inactive slots, no duplicates
    let mut free_seen: HashSet<usize> = HashSet::new();
    for &f in &d.free {
        if f >= d.slots.len() {
            return Err(format!("free list holds index {f} beyond the {} slots", d.slots.len()));
        }
        if !free_seen.insert(f) {
            return Err(format!("free list holds index {f} twice"));
        }
        if d.slots[f].location.is_some() {
            return Err(format!("free list holds index {f} of an active slot"));
        }
    }
    for (si, s) in d.slots.iter().enumerate() {
        if s.location.is_none() && !free_seen.contains(&si) {
            return Err(format!(
                "slot {si} (generation {}) is inactive but not in the free list: the identifier index was lost and can never be reused",
                s.generation
            ));
        }
    }

    // len
    if d.len != rows_total || d.len != active {
        return Err(format!("len() = {} but {} rows are stored and {} slots are active", d.len, rows_total, active));
    }

    // lookups
    for &t in &d.type_id_lookup {
        if !by_addr.contains_key(&t) {
            return Err(format!("type-id lookup entry targets {:#x}, not an archetype of this world", t));
        }
    }
    let mut reachable: HashSet<usize> = HashSet::new();
    let mut keys_seen: HashMap<&[u8], usize> = HashMap::new();
    for (kaddr, kbytes, target) in &d.foreign_identifier_lookup {
        let ai = match by_addr.get(target) {
            Some(ai) => *ai,
            None => return Err(format!("identifier lookup entry {kbytes:?} targets {:#x}, not an archetype of this world", target)),
        };
        if d.archetypes[ai].identifier_bytes != *kbytes {
            return Err(format!(
                "identifier lookup key {kbytes:?} targets archetype {:?}",
                d.archetypes[ai].identifier_bytes
            ));
        }
        // the key slice must live in one of this world's identifiers
        if !by_addr.contains_key(kaddr) {
            return Err(format!(
                "identifier lookup key {kbytes:?} borrows its bytes from {:#x}, which is not an identifier of this world (dangling or cross-world reference)",
                kaddr
            ));
        }
        if keys_seen.insert(&kbytes[..], ai).is_some() {
            st.dup_foreign_keys += 1;
        }
        reachable.insert(ai);
    }
    for (ai, a) in d.archetypes.iter().enumerate() {
        if !reachable.contains(&ai) {
            return Err(format!("archetype {:?} is not reachable through the identifier lookup", a.identifier_bytes));
        }
    }
    Ok(st)
}
