//! Executable reference model of one world and the oracles that compare observations with it.

use crate::payload::Obs;
use crate::rig::{parts, CompObs, FilterD, Item, QCtx, QDesc, Rig, Row, SubD, ViewD};
use std::collections::{BTreeMap, HashMap, HashSet};

pub type IdP = (usize, u64);

#[derive(Clone, Debug, PartialEq, Eq)]
pub struct Model {
    pub n: usize,
    /// Live entities: per registry component `Some(value)` when present.
    pub ents: BTreeMap<IdP, Vec<Option<u64>>>,
    /// Every identifier ever issued in this world's lifetime (inherited by clones / round trips):
    /// true = currently live.
    pub issued: BTreeMap<IdP, bool>,
    pub res: Vec<u64>,
}

pub fn shape_of(comps: &[Option<u64>]) -> u32 {
    let mut s = 0;
    for (k, c) in comps.iter().enumerate() {
        if c.is_some() {
            s |= 1 << k;
        }
    }
    s
}

impl Model {
    pub fn new(n: usize, res: Vec<u64>) -> Self {
        Model { n, ents: BTreeMap::new(), issued: BTreeMap::new(), res }
    }
    pub fn len(&self) -> usize {
        self.ents.len()
    }
    pub fn count_comp(&self, k: usize) -> usize {
        self.ents.values().filter(|c| c[k].is_some()).count()
    }
    /// Record a freshly issued identifier. Err if it was issued before.
    pub fn issue(&mut self, id: IdP, comps: Vec<Option<u64>>) -> Result<(), String> {
        if self.issued.contains_key(&id) {
            return Err(format!("identifier {id:?} was already issued earlier in this world's lifetime"));
        }
        self.issued.insert(id, true);
        self.ents.insert(id, comps);
        Ok(())
    }
    pub fn kill(&mut self, id: IdP) -> bool {
        if self.ents.remove(&id).is_some() {
            self.issued.insert(id, false);
            true
        } else {
            false
        }
    }
    pub fn clear(&mut self) {
        let ids: Vec<IdP> = self.ents.keys().copied().collect();
        for id in ids {
            self.kill(id);
        }
    }

    /// Compare a full snapshot with the model.
    pub fn compare_snapshot(&self, rows: &[Row]) -> Result<(), String> {
        let mut seen: HashSet<IdP> = HashSet::new();
        for (id, comps) in rows {
            let p = parts(*id);
            if !seen.insert(p) {
                return Err(format!("entity {p:?} appears twice in the snapshot"));
            }
            match self.ents.get(&p) {
                None => return Err(format!("snapshot holds entity {p:?} which the model does not (comps {comps:?})")),
                Some(mc) => cmp_row(p, mc, comps)?,
            }
        }
        if rows.len() != self.ents.len() {
            let missing: Vec<&IdP> = self.ents.keys().filter(|k| !seen.contains(k)).take(4).collect();
            return Err(format!(
                "snapshot has {} entities, model has {}; missing e.g. {:?}",
                rows.len(),
                self.ents.len(),
                missing
            ));
        }
        Ok(())
    }
}

pub fn cmp_row(p: IdP, mc: &[Option<u64>], comps: &[Option<Obs>]) -> Result<(), String> {
    for k in 0..mc.len() {
        match (mc[k], comps[k]) {
            (None, None) => {}
            (Some(mv), Some(o)) => {
                if mv != o.val {
                    return Err(format!("entity {p:?} component {k}: world has value {:#x}, model {:#x}", o.val, mv));
                }
            }
            (Some(_), None) => return Err(format!("entity {p:?} lacks component {k} which the model has")),
            (None, Some(o)) => {
                return Err(format!("entity {p:?} has component {k} (value {:#x}) which the model lacks", o.val))
            }
        }
    }
    Ok(())
}

/// Statistics of one checked query (for evidence).
#[derive(Clone, Debug, Default)]
pub struct QStats {
    pub items: usize,
    pub expected: usize,
    pub resolved: usize,
    pub unresolved: usize,
    pub writes: usize,
    pub hints: usize,
    pub subs_some: usize,
    pub subs_none: usize,
    pub entry_missing: usize,
}

fn expected_tuple(views: &[ViewD], mc: &[Option<u64>]) -> Vec<(usize, Option<u64>)> {
    views
        .iter()
        .filter_map(|v| match *v {
            ViewD::Comp(k, _) => Some((k, mc[k])),
            ViewD::Id => None,
        })
        .collect()
}

fn check_item_against<G: Rig>(
    what: &str,
    p: IdP,
    views: &[ViewD],
    item: &Item,
    mc: &mut [Option<u64>],
    stats: &mut QStats,
) -> Result<(), String> {
    let comp_views: Vec<(usize, crate::rig::VK)> = views
        .iter()
        .filter_map(|v| match *v {
            ViewD::Comp(k, vk) => Some((k, vk)),
            ViewD::Id => None,
        })
        .collect();
    if comp_views.len() != item.comps.len() {
        return Err(format!("{what}: item for {p:?} has {} component observations, views have {}", item.comps.len(), comp_views.len()));
    }
    for ((k, vk), co) in comp_views.iter().zip(item.comps.iter()) {
        debug_assert_eq!(*k, co.k);
        match (mc[*k], co.old) {
            (Some(mv), Some(o)) => {
                if o.val != mv {
                    return Err(format!("{what}: entity {p:?} component {k}: view shows {:#x}, model has {:#x}", o.val, mv));
                }
            }
            (None, None) => {
                if !vk.optional() {
                    return Err(format!("{what}: entity {p:?} lacks required component {k} but was yielded"));
                }
            }
            (Some(_), None) => {
                return Err(format!("{what}: entity {p:?} has component {k} but the optional view was None"))
            }
            (None, Some(o)) => {
                return Err(format!("{what}: entity {p:?} lacks component {k} but the view yielded a value {:#x}", o.val))
            }
        }
        if let Some(nv) = co.new {
            if mc[*k].is_some() {
                mc[*k] = Some(G::norm(*k, nv));
                stats.writes += 1;
            }
        }
    }
    Ok(())
}

/// Check the observations of query `d` recorded in `cx` against `model`, and apply the writes the
/// query made to the model.
pub fn check_query<G: Rig>(model: &mut Model, d: &QDesc, cx: &QCtx, targets: &[IdP]) -> Result<QStats, String> {
    let mut stats = QStats::default();
    let what = d.name;
    // value -> entity reverse map for identity-carrying components
    let mut rev: HashMap<(usize, u64), IdP> = HashMap::new();
    for (id, comps) in &model.ents {
        for (k, c) in comps.iter().enumerate() {
            if let Some(v) = c {
                if G::ident(k) {
                    rev.insert((k, *v), *id);
                }
            }
        }
    }
    let expected: Vec<IdP> = model
        .ents
        .iter()
        .filter(|(_, c)| {
            let s = shape_of(c);
            d.filter.eval(s) && crate::rig::views_match(d.views, s)
        })
        .map(|(id, _)| *id)
        .collect();
    stats.expected = expected.len();
    let iterated = !matches!(cx.mode, crate::rig::IterMode::Skip);
    if iterated {
        stats.items = cx.items.len();
        let expected_set: HashSet<IdP> = expected.iter().copied().collect();
        let mut seen: HashSet<IdP> = HashSet::new();
        let mut unresolved: Vec<&Item> = Vec::new();
        let mut mut_addrs: HashSet<usize> = HashSet::new();
        let mut all_addrs: HashMap<usize, bool> = HashMap::new();
        for item in &cx.items {
            for co in &item.comps {
                if co.old.is_some() && co.addr != 0 && !matches!(G::KINDS[co.k], crate::payload::Kind::Zst) {
                    if co.mutable {
                        if !mut_addrs.insert(co.addr) || all_addrs.contains_key(&co.addr) {
                            return Err(format!("{what}: two results give access to the same address {:#x} (component {}), one of them mutable", co.addr, co.k));
                        }
                    } else if mut_addrs.contains(&co.addr) {
                        return Err(format!("{what}: two results give access to the same address {:#x} (component {}), one of them mutable", co.addr, co.k));
                    }
                    all_addrs.insert(co.addr, co.mutable);
                }
            }
            let mut resolved: Option<IdP> = item.id.map(parts);
            if resolved.is_none() {
                for co in &item.comps {
                    if let Some(o) = co.old {
                        if G::ident(co.k) {
                            match rev.get(&(co.k, o.val)) {
                                Some(id) => {
                                    resolved = Some(*id);
                                }
                                None => {
                                    return Err(format!(
                                        "{what}: a result shows component {} = {:#x}, which no live entity holds",
                                        co.k, o.val
                                    ))
                                }
                            }
                            break;
                        }
                    }
                }
            }
            match resolved {
                Some(p) => {
                    stats.resolved += 1;
                    if !expected_set.contains(&p) {
                        return Err(match model.ents.get(&p) {
                            Some(c) => format!("{what}: yielded entity {p:?} (shape {:#b}) which does not match the views/filter", shape_of(c)),
                            None => format!("{what}: yielded identifier {p:?} which is not a live entity"),
                        });
                    }
                    if !seen.insert(p) {
                        return Err(format!("{what}: entity {p:?} yielded twice"));
                    }
                    let mc = model.ents.get_mut(&p).unwrap();
                    check_item_against::<G>(what, p, d.views, item, mc, &mut stats)?;
                }
                None => {
                    stats.unresolved += 1;
                    unresolved.push(item);
                }
            }
        }
        if !cx.subset && cx.items.len() != expected.len() {
            let missing: Vec<&IdP> = expected.iter().filter(|e| !seen.contains(e)).take(4).collect();
            return Err(format!(
                "{what}: query yielded {} results, {} entities match (unseen e.g. {:?})",
                cx.items.len(),
                expected.len(),
                missing
            ));
        }
        // unresolved items: multiset comparison with the remaining expected entities
        if !unresolved.is_empty() {
            let mut exp: Vec<Vec<(usize, Option<u64>)>> = expected
                .iter()
                .filter(|e| !seen.contains(e))
                .map(|e| expected_tuple(d.views, &model.ents[e]))
                .collect();
            let mut got: Vec<Vec<(usize, Option<u64>)>> =
                unresolved.iter().map(|it| it.comps.iter().map(|c| (c.k, c.old.map(|o| o.val))).collect()).collect();
            exp.sort();
            got.sort();
            let subset_ok = cx.subset && {
                // every observed tuple must be matched by a distinct expected one
                let mut pool = exp.clone();
                got.iter().all(|g| match pool.iter().position(|e| e == g) {
                    Some(i) => {
                        pool.swap_remove(i);
                        true
                    }
                    None => false,
                })
            };
            if exp != got && !subset_ok {
                return Err(format!("{what}: results without identity do not match the expected multiset: got {got:?} expected {exp:?}"));
            }
            // uniform writes to non-identity components (a subset consumer leaves it open which
            // entities were written: such queries are driven read-only)
            for e in expected.iter().filter(|e| !seen.contains(e) && !cx.subset) {
                let mc = model.ents.get_mut(e).unwrap();
                for v in d.views {
                    if let ViewD::Comp(k, vk) = *v {
                        if vk.mutable() && cx.write && mc[k].is_some() && !G::ident(k) {
                            mc[k] = Some(G::norm(k, cx.uniform));
                            stats.writes += 1;
                        }
                    }
                }
            }
        }
        // size hints
        for &(lo, hi, yielded) in &cx.hints {
            stats.hints += 1;
            let remaining = expected.len().saturating_sub(yielded);
            if lo > remaining || hi.map_or(false, |h| remaining > h) {
                return Err(format!(
                    "{what}: size_hint ({lo}, {hi:?}) after {yielded} results does not bracket the {remaining} remaining"
                ));
            }
        }
        if cx.next_after_end_was_none == Some(false) {
            return Err(format!("{what}: iterator yielded a result after returning None"));
        }
    }
    if let Some(n) = cx.counted {
        if n != expected.len() {
            return Err(format!("{what}: parallel count() = {n}, {} entities match", expected.len()));
        }
    }
    // resource views
    for &(r, o, new, _addr) in &cx.res {
        if o.val != model.res[r] {
            return Err(format!("#res {what}: resource view {r} shows {:#x}, model has {:#x}", o.val, model.res[r]));
        }
        if let Some(nv) = new {
            model.res[r] = nv;
        }
    }
    // entries
    for &(ti, _at) in &cx.entry_none {
        stats.entry_missing += 1;
        if model.ents.contains_key(&targets[ti]) {
            return Err(format!("#id {what}: entries.entry({:?}) was None for a live entity", targets[ti]));
        }
    }
    for so in &cx.subs {
        let p = targets[so.target];
        let sd: &SubD = &d.subs[so.sub];
        let mc = match model.ents.get_mut(&p) {
            Some(mc) => mc,
            None => return Err(format!("#id {what}: entries.entry({p:?}) resolved although the entity is not live")),
        };
        check_sub::<G>(what, p, sd.views, &sd.filter, so.item.as_ref(), mc, &mut stats)?;
    }
    Ok(stats)
}

pub fn check_sub<G: Rig>(
    what: &str,
    p: IdP,
    views: &[ViewD],
    filter: &FilterD,
    item: Option<&Item>,
    mc: &mut [Option<u64>],
    stats: &mut QStats,
) -> Result<(), String> {
    let s = shape_of(mc);
    let want = filter.eval(s) && crate::rig::views_match(views, s);
    match item {
        None => {
            stats.subs_none += 1;
            if want {
                return Err(format!("{what}: entry query on {p:?} (shape {s:#b}) returned None although views {views:?} / filter {filter:?} match"));
            }
        }
        Some(it) => {
            stats.subs_some += 1;
            if !want {
                return Err(format!("{what}: entry query on {p:?} (shape {s:#b}) returned a result although views {views:?} / filter {filter:?} do not match"));
            }
            if let Some(id) = it.id {
                if parts(id) != p {
                    return Err(format!("{what}: entry query on {p:?} yielded identifier {:?}", parts(id)));
                }
            }
            check_item_against::<G>(what, p, views, it, mc, stats)?;
        }
    }
    Ok(())
}

#[allow(dead_code)]
fn _unused(_: CompObs) {}
