#!/usr/bin/env python3
"""Generate the typed dispatch + query family for one rig.

usage: gen_rig.py <spec> <seed> <nqueries> <out.rs>

<spec> = NAME:kinds:nres:shapes   e.g.  R5:Med,Heap,Zst,Small,Wide:2:all
         kinds   comma list of Med|Heap|Wide|Small|Zst (registry order)
         nres    number of resources
         shapes  'all' or an integer (number of sampled shapes; the empty and the full shape are
                 always included)
The output is one Rust source file `include!`d by the rig crate.
"""
import random
import sys

VK = ["Ref", "Mut", "OptRef", "OptMut"]
RES_KINDS_OVERRIDE = None

# brood's type-level reshape of resource views only compiles for some orders of the requested
# views relative to the resource list (measured with a scratch crate over all permutations of
# sub-lists of 4 resources: e.g. the 3-cycles (B, C, A) and (C, A, B) are rejected by rustc).
# The generator only emits orders from the accepted set.
RES_ORDER_OK = {
    3: {(0, 1, 2), (0, 2, 1), (1, 0, 2), (2, 1, 0)},
    4: {(0, 1, 2, 3), (0, 1, 3, 2), (0, 2, 1, 3), (0, 3, 2, 1), (1, 0, 2, 3), (1, 0, 3, 2), (2, 1, 0, 3), (3, 2, 1, 0)},
}


def res_order_ok(idxs):
    n = len(idxs)
    if n <= 2:
        return True
    ranks = tuple(sorted(idxs).index(x) for x in idxs)
    return n in RES_ORDER_OK and ranks in RES_ORDER_OK[n]


def res_sample(rng, nres):
    while True:
        rs = rng.sample(range(nres), rng.randrange(1, nres + 1))
        if res_order_ok(rs):
            return rs


def main():
    spec, seed, nq, out = sys.argv[1], int(sys.argv[2]), int(sys.argv[3]), sys.argv[4]
    parts = spec.split(":")
    name, kinds, nres, shapes_spec, tagbase = (parts + ["0"])[:5]
    global RES_KINDS_OVERRIDE
    RES_KINDS_OVERRIDE = parts[5].split(",") if len(parts) > 5 and parts[5] else None
    kinds = [k for k in kinds.split(",") if k]
    nres = int(nres)
    tagbase = int(tagbase)
    g = Gen(name, kinds, nres, shapes_spec, tagbase, seed, nq)
    src = g.emit()
    with open(out, "w") as f:
        f.write(src)


class Gen:
    def __init__(self, name, kinds, nres, shapes_spec, tagbase, seed, nq):
        self.name = name
        self.kinds = kinds
        self.n = len(kinds)
        self.nres = nres
        self.tagbase = tagbase
        self.rng = random.Random(seed * 1000003 + len(kinds) * 17 + nres)
        self.nq = nq
        self.npar = int(__import__("os").environ.get("BVH_GEN_NPAR", "40"))
        n = self.n
        if shapes_spec == "all":
            shapes = list(range(1 << n))
        else:
            cnt = int(shapes_spec)
            pool = set([0, (1 << n) - 1])
            # all singletons, then random
            for k in range(n):
                pool.add(1 << k)
            srng = random.Random(12345 + n)  # shape sample is fixed (independent of the family seed)
            while len(pool) < min(cnt, 1 << n):
                pool.add(srng.randrange(1 << n))
            shapes = sorted(pool)
        self.shapes = shapes
        # orders per shape: order 0 = registry order, order 1 = a fixed permutation (reverse for
        # small shapes, shuffled otherwise)
        self.orders = {}
        orng = random.Random(777 + n)
        for s in shapes:
            ks = [k for k in range(n) if s >> k & 1]
            o0 = list(ks)
            o1 = list(reversed(ks))
            if len(ks) > 2:
                o2 = list(ks)
                orng.shuffle(o2)
                self.orders[s] = [o0, o1, o2] if o2 not in (o0, o1) else [o0, o1]
            elif len(ks) == 2:
                self.orders[s] = [o0, o1]
            else:
                self.orders[s] = [o0]

    # ------------------------------------------------------------------ helpers
    def C(self, k):
        return f"C{k}"

    def S(self, r):
        return f"S{r}"

    def view_ty(self, v, comp=None):
        comp = comp or self.C
        if v == "Id":
            return "entity::Identifier"
        k, vk = v
        c = comp(k)
        return {"Ref": f"&{c}", "Mut": f"&mut {c}", "OptRef": f"Option<&{c}>", "OptMut": f"Option<&mut {c}>"}[vk]

    def views_ty(self, vs):
        return "Views!(" + ", ".join(self.view_ty(v) for v in vs) + ")"

    def view_d(self, v):
        if v == "Id":
            return "ViewD::Id"
        return f"ViewD::Comp({v[0]}, VK::{v[1]})"

    def views_d(self, vs):
        return "&[" + ", ".join(self.view_d(v) for v in vs) + "]"

    def filter_ty(self, f):
        t = f[0]
        if t == "None":
            return "filter::None"
        if t == "Has":
            return f"filter::Has<{self.C(f[1])}>"
        if t == "Not":
            return f"filter::Not<{self.filter_ty(f[1])}>"
        if t in ("And", "Or"):
            return f"filter::{t}<{self.filter_ty(f[1])}, {self.filter_ty(f[2])}>"
        if t == "Views":
            vs = f[1]
            if len(vs) == 1 and f[2]:
                return self.view_ty(vs[0])
            return self.views_ty(vs)
        raise ValueError(f)

    def filter_ty_static(self, f):
        """Filter type for `type Filter` of a System impl: reference views need a named lifetime."""
        t = self.filter_ty(f)
        return t.replace("&mut ", "&'static mut ").replace("&C", "&'static C")

    def filter_d(self, f):
        t = f[0]
        if t == "None":
            return "FilterD::None"
        if t == "Has":
            return f"FilterD::Has({f[1]})"
        if t == "Not":
            return f"FilterD::Not(&{self.filter_d(f[1])})"
        if t in ("And", "Or"):
            return f"FilterD::{t}(&{self.filter_d(f[1])}, &{self.filter_d(f[2])})"
        if t == "Views":
            return f"FilterD::Views({self.views_d(f[1])})"
        raise ValueError(f)

    def rand_filter(self, comps, depth, allow_views=True):
        r = self.rng
        if not comps:
            return ("None",)
        if depth == 0:
            c = r.random()
            if c < 0.2:
                return ("None",)
            if c < 0.8 or not allow_views:
                return ("Has", r.choice(comps))
            # views used as a filter
            cnt = r.choice([1, 1, 2, 3])
            ks = r.sample(comps, min(cnt, len(comps)))
            vs = [(k, r.choice(VK)) for k in ks]
            if r.random() < 0.15:
                vs.insert(r.randrange(len(vs) + 1), "Id")
            bare = len(vs) == 1 and r.random() < 0.6
            return ("Views", vs, bare)
        c = r.random()
        if c < 0.25:
            return self.rand_filter(comps, 0, allow_views)
        if c < 0.5:
            return ("Not", self.rand_filter(comps, depth - 1, allow_views))
        if c < 0.75:
            return ("And", self.rand_filter(comps, depth - 1, allow_views), self.rand_filter(comps, depth - 1, allow_views))
        return ("Or", self.rand_filter(comps, depth - 1, allow_views), self.rand_filter(comps, depth - 1, allow_views))

    def rand_query(self, qi):
        r = self.rng
        n = self.n
        comps = list(range(n))
        # views
        if n == 0:
            nv = 0
        else:
            nv = r.choice([0, 1, 1, 2, 2, 3, 3, 4, n])
            nv = min(nv, n)
        vks = r.sample(comps, nv)
        views = [(k, r.choice(VK)) for k in vks]
        if r.random() < 0.55:
            views.insert(r.randrange(len(views) + 1), "Id")
        # filter
        c = r.random()
        if c < 0.3:
            flt = ("None",)
        else:
            flt = self.rand_filter(comps, r.choice([0, 1, 1, 2]))
        # resource views
        res = []
        if self.nres and r.random() < 0.5:
            rs = res_sample(r, self.nres)
            res = [(x, r.random() < 0.5) for x in rs]
        # entry views (disjoint from views)
        entry = []
        subs = []
        if n and r.random() < 0.6:
            vmap = {v[0]: v[1] for v in views if v != "Id"}
            cand = []
            for k in comps:
                if k in vmap:
                    if vmap[k] in ("Mut", "OptMut"):
                        continue
                    cand.append((k, ["Ref", "OptRef"]))
                else:
                    cand.append((k, VK))
            r.shuffle(cand)
            ne = r.randrange(1, len(cand) + 1) if cand else 0
            entry = [(k, r.choice(opts)) for k, opts in cand[:ne]]
            if r.random() < 0.4:
                entry.insert(r.randrange(len(entry) + 1), "Id")
            # sub views
            for _ in range(r.choice([1, 2, 3])):
                sv = []
                ecomps = [v for v in entry if v != "Id"]
                pick = r.sample(ecomps, r.randrange(0, len(ecomps) + 1)) if ecomps else []
                for k, evk in pick:
                    if evk in ("Mut", "OptMut"):
                        opts = VK
                    else:
                        opts = ["Ref", "OptRef"]
                    sv.append((k, r.choice(opts)))
                if "Id" in entry and r.random() < 0.5:
                    sv.insert(r.randrange(len(sv) + 1), "Id")
                sf = self.rand_filter([v[0] for v in ecomps], r.choice([0, 0, 1, 2]), allow_views=False) if r.random() < 0.6 else ("None",)
                subs.append((sv, sf))
        return dict(name=f"q{qi}", views=views, filter=flt, res=res, entry=entry, subs=subs)

    # ------------------------------------------------------------------ emit
    def emit(self):
        n = self.n
        o = []
        w = o.append
        w("// @generated by gen/gen_rig.py -- do not edit")
        w("#[allow(unused_imports)]")
        w("use brood::{entities, entity, query::{filter, result, Views}, resources, Entity, Query, Registry, Resources};")
        w("#[allow(unused_imports)]")
        w("use bvh::payload::{Heap, Kind, Med, Obs, Payload, Plain, Small, Wide, Zst};")
        w("#[allow(unused_imports)]")
        w("use bvh::rig::{col, Consumer, FilterD, IterMode, ParCtx, ParRig, QCtx, QDesc, Rig, Row, SubD, ViewD, VK, W};")
        w("#[allow(unused_imports)]")
        w("use brood::{query::Result as QResult, registry::ContainsViews as RegContainsViews, system::{ParSystem, System}};")
        w("#[allow(unused_imports)]")
        w("use rayon::iter::ParallelIterator;")
        w("use brood::entity::Identifier;")
        for k, kind in enumerate(self.kinds):
            w(f"pub type C{k} = {kind}<{self.tagbase + k}>;")
        reskinds = ["Med", "Heap", "Wide", "Small"]
        for r_ in range(self.nres):
            kind = reskinds[r_ % 3]
            # with four resources the first and the last are `Plain`: interchangeable wire encodings
            if self.nres >= 4 and r_ in (0, self.nres - 1):
                kind = "Plain"
            if RES_KINDS_OVERRIDE:
                kind = RES_KINDS_OVERRIDE[r_ % len(RES_KINDS_OVERRIDE)]
            w(f"pub type S{r_} = {kind}<{40 + self.tagbase % 8 + r_}>;")
        w(f"pub struct {self.name};")
        w(f"type Wd = W<{self.name}>;")
        w(f"impl Rig for {self.name} {{")
        w("    type Reg = Registry!(" + ", ".join(self.C(k) for k in range(n)) + ");")
        w("    type Res = Resources!(" + ", ".join(self.S(r_) for r_ in range(self.nres)) + ");")
        w(f'    const NAME: &\'static str = "{self.name}";')
        w(f"    const N: usize = {n};")
        w("    const KINDS: &'static [Kind] = &[" + ", ".join(f"Kind::{k}" for k in self.kinds) + "];")
        w("    const TAGS: &'static [u32] = &[" + ", ".join(f"<C{k} as Payload>::K" for k in range(n)) + "];")
        w(f"    const NRES: usize = {self.nres};")
        w("    const RES_TAGS: &'static [u32] = &[" + ", ".join(f"<S{r_} as Payload>::K" for r_ in range(self.nres)) + "];")
        w("    const SHAPES: &'static [(u32, u8)] = &[" + ", ".join(f"({s}, {len(self.orders[s])})" for s in self.shapes) + "];")

        # norm
        w("    fn norm(k: usize, val: u64) -> u64 {")
        w("        match k {")
        for k in range(n):
            w(f"            {k} => <C{k} as Payload>::norm(val),")
        w("            _ => val,")
        w("        }")
        w("    }")

        # new_world
        w("    fn new_world(res_vals: &[u64]) -> Wd {")
        w("        let _ = res_vals;")
        w("        brood::World::with_resources(resources!(" + ", ".join(f"S{r_}::make(res_vals[{r_}])" for r_ in range(self.nres)) + "))")
        w("    }")

        # insert
        w("    fn insert(w: &mut Wd, shape: u32, order: u8, vals: &[u64]) -> Identifier {")
        w("        let _ = vals;")
        w("        match (shape, order) {")
        for s in self.shapes:
            for oi, order in enumerate(self.orders[s]):
                args = ", ".join(f"C{k}::make(vals[{k}])" for k in order)
                w(f"            ({s}, {oi}) => w.insert(entity!({args})),")
        w('            _ => panic!("rig: no insert arm for shape {shape} order {order}"),')
        w("        }")
        w("    }")

        # extend
        w("    fn extend(w: &mut Wd, shape: u32, order: u8, rows: &[Vec<u64>], slack: usize, form: u8) -> Vec<Identifier> {")
        w("        let _ = (slack, form);")
        w("        match (shape, order) {")
        for s in self.shapes:
            for oi, order in enumerate(self.orders[s]):
                w(f"            ({s}, {oi}) => {{")
                if order:
                    for nrows in (1, 2, 3):
                        rows = ", ".join("(" + ", ".join(f"C{k}::make(rows[{r_}][{k}])" for k in order) + ")" for r_ in range(nrows))
                        w(f"                if form == 1 && rows.len() == {nrows} {{ return w.extend(entities!({rows})); }}")
                    cols = ""
                    tail = "entities::Null"
                    for k in reversed(order):
                        tail = f"(col::<C{k}>(rows, {k}, slack), {tail})"
                    w(f"                w.extend(entities::Batch::new({tail}))")
                else:
                    for nrows in (1, 2, 3):
                        rows = ", ".join("()" for _ in range(nrows))
                        w(f"                if form == 1 && rows.len() == {nrows} {{ return w.extend(entities!({rows})); }}")
                    w("                w.extend(entities!((); rows.len()))")
                w("            }")
        w('            _ => panic!("rig: no extend arm for shape {shape} order {order}"),')
        w("        }")
        w("    }")

        # reserve
        w("    fn reserve(w: &mut Wd, shape: u32, order: u8, additional: usize) {")
        w("        match (shape, order) {")
        for s in self.shapes:
            for oi, order in enumerate(self.orders[s]):
                tys = ", ".join(f"C{k}" for k in order)
                w(f"            ({s}, {oi}) => w.reserve::<Entity!({tys}), _>(additional),")
        w('            _ => panic!("rig: no reserve arm for shape {shape} order {order}"),')
        w("        }")
        w("    }")

        # entry add / remove / multi
        w("    fn entry_add(w: &mut Wd, id: Identifier, k: usize, val: u64) -> bool {")
        w("        let _ = val;")
        w("        match w.entry(id) {")
        w("            None => false,")
        w("            #[allow(unused_mut, unused_variables)]")
        w("            Some(mut e) => {")
        w("                match k {")
        for k in range(n):
            w(f"                    {k} => e.add(C{k}::make(val)),")
        w('                    _ => panic!("rig: bad component index"),')
        w("                }")
        w("                true")
        w("            }")
        w("        }")
        w("    }")
        w("    fn entry_remove(w: &mut Wd, id: Identifier, k: usize) -> bool {")
        w("        match w.entry(id) {")
        w("            None => false,")
        w("            #[allow(unused_mut, unused_variables)]")
        w("            Some(mut e) => {")
        w("                match k {")
        for k in range(n):
            w(f"                    {k} => e.remove::<C{k}, _>(),")
        w('                    _ => panic!("rig: bad component index"),')
        w("                }")
        w("                true")
        w("            }")
        w("        }")
        w("    }")
        w("    fn entry_multi(w: &mut Wd, id: Identifier, steps: &[(usize, Option<u64>)]) -> bool {")
        w("        match w.entry(id) {")
        w("            None => false,")
        w("            #[allow(unused_mut, unused_variables)]")
        w("            Some(mut e) => {")
        w("                for &(k, v) in steps {")
        w("                    match (k, v) {")
        for k in range(n):
            w(f"                        ({k}, Some(val)) => e.add(C{k}::make(val)),")
            w(f"                        ({k}, None) => e.remove::<C{k}, _>(),")
        w('                        _ => panic!("rig: bad component index"),')
        w("                    }")
        w("                }")
        w("                true")
        w("            }")
        w("        }")
        w("    }")

        # snapshot
        allopt = ", ".join(["entity::Identifier"] + [f"Option<&C{k}>" for k in range(n)])
        pat = ", ".join(["id"] + [f"c{k}" for k in range(n)])
        row = ", ".join(f'c{k}.map(|c| c.obs("snapshot"))' for k in range(n))
        w("    fn snapshot(w: &mut Wd) -> Vec<Row> {")
        w("        let mut out = Vec::new();")
        w(f"        for result!({pat}) in w.query(Query::<Views!({allopt})>::new()).iter {{")
        w(f"            out.push((id, vec![{row}]));")
        w("        }")
        w("        out")
        w("    }")
        w("    fn entry_snapshot(w: &mut Wd, id: Identifier) -> Option<Row> {")
        w("        let mut e = w.entry(id)?;")
        w(f"        let result!({pat}) = e.query(Query::<Views!({allopt})>::new())?;")
        row2 = ", ".join(f'c{k}.map(|c| c.obs("entry snapshot"))' for k in range(n))
        w(f"        Some((id, vec![{row2}]))")
        w("    }")

        # resources
        w("    fn res_get(w: &Wd) -> Vec<Obs> {")
        w("        let _ = w;")
        w("        vec![" + ", ".join(f'w.get::<S{r_}, _>().obs("get")' for r_ in range(self.nres)) + "]")
        w("    }")
        w("    fn res_set(w: &mut Wd, r: usize, val: u64) -> Obs {")
        w("        let _ = (&w, val);")
        w("        match r {")
        for r_ in range(self.nres):
            w(f'            {r_} => {{ let p = w.get_mut::<S{r_}, _>(); let o = p.obs("get_mut"); p.set(val); o }}')
        w('            _ => panic!("rig: bad resource index"),')
        w("        }")
        w("    }")
        # resource view lists
        rv_lists = [[]]
        rr = random.Random(4242 + self.nres)
        if self.nres:
            for r_ in range(self.nres):
                rv_lists.append([(r_, False)])
                rv_lists.append([(r_, True)])
            for _ in range(6):
                rs = res_sample(rr, self.nres)
                lst = [(x, rr.random() < 0.5) for x in rs]
                if lst not in rv_lists:
                    rv_lists.append(lst)
            full = list(range(self.nres))
            rv_lists.append([(x, True) for x in reversed(full)])
        self.rv_lists = rv_lists
        w("    const RES_VIEWS: &'static [&'static [(usize, bool)]] = &[" + ", ".join("&[" + ", ".join(f"({x}, {'true' if m else 'false'})" for x, m in lst) + "]" for lst in rv_lists) + "];")
        w("    fn res_view(w: &mut Wd, vi: usize, cx: &mut QCtx) {")
        w("        let _ = (&w, &cx);")
        w("        match vi {")
        for vi, lst in enumerate(rv_lists):
            tys = ", ".join(("&mut " if m else "&") + f"S{x}" for x, m in lst)
            pat_ = ", ".join(f"r{i}" for i in range(len(lst)))
            w(f"            {vi} => {{")
            w(f"                let result!({pat_}) = w.view_resources::<Views!({tys}), _>();")
            for i, (x, m) in enumerate(lst):
                w(f"                cx.see_res{'_mut' if m else ''}({x}, r{i});")
            w("            }")
        w('            _ => panic!("rig: bad resource view index"),')
        w("        }")
        w("    }")

        # queries
        queries = [self.rand_query(qi) for qi in range(self.nq)]
        # a few fixed, always-present members
        fixed = []
        fixed.append(dict(name="fx_empty", views=[], filter=("None",), res=[], entry=[], subs=[]))
        fixed.append(dict(name="fx_id", views=["Id"], filter=("None",), res=[], entry=[], subs=[]))
        if n:
            fixed.append(dict(name="fx_allmut", views=[(k, "OptMut") for k in range(n)] + ["Id"], filter=("None",), res=[(x, True) for x in range(self.nres)], entry=[], subs=[]))
            fixed.append(dict(name="fx_entry_all", views=["Id"], filter=("None",), res=[], entry=[(k, "OptMut") for k in range(n)] + ["Id"],
                              subs=[([(k, VK[(k + 1) % 4]) for k in range(n)], ("None",)), ([(k, "OptRef") for k in reversed(range(n))] + ["Id"], ("None",)), ([], ("None",))]))
            fixed.append(dict(name="fx_entry_req", views=[(0, "Ref")], filter=("None",), res=[], entry=[(k, "Mut") for k in range(1, n)] + [(0, "Ref")],
                              subs=[([(k, "OptMut") for k in range(1, n)], ("None",)), ([(0, "OptRef")] + [(k, "Ref") for k in range(1, min(n, 3))], ("None",))]))
        queries = fixed + queries
        self.queries = queries

        w("    const QUERIES: &'static [QDesc] = &[")
        for q in queries:
            subs = ", ".join(f"SubD {{ views: {self.views_d(sv)}, filter: {self.filter_d(sf)} }}" for sv, sf in q["subs"])
            res = ", ".join(f"({x}, {'true' if m else 'false'})" for x, m in q["res"])
            w(f'        QDesc {{ name: "{q["name"]}", views: {self.views_d(q["views"])}, filter: {self.filter_d(q["filter"])}, res_views: &[{res}], entry_views: {self.views_d(q["entry"])}, subs: &[{subs}] }},')
        w("    ];")
        w("    fn run_query(w: &mut Wd, qi: usize, cx: &mut QCtx) {")
        w("        match qi {")
        for qi, q in enumerate(queries):
            w(f"            {qi} => query_{qi}(w, cx),")
        w('            _ => panic!("rig: bad query index"),')
        w("        }")
        w("    }")
        w("    fn run_entry_query(w: &mut Wd, qi: usize, id: Identifier, cx: &mut QCtx) -> bool {")
        w("        match qi {")
        for qi, q in enumerate(queries):
            w(f"            {qi} => entry_query_{qi}(w, id, cx),")
        w('            _ => panic!("rig: bad query index"),')
        w("        }")
        w("    }")
        w("}")

        for qi, q in enumerate(queries):
            self.emit_query(o, qi, q)
        npar = min(len(queries), self.npar)
        w(f"impl ParRig for {self.name} {{")
        w(f"    const NPAR: usize = {npar};")
        w("    fn run_par_query(w: &mut Wd, qi: usize, cx: &ParCtx, qcx: &mut QCtx, consumer: Consumer) -> usize {")
        w("        match qi {")
        for qi in range(npar):
            w(f"            {qi} => par_query_{qi}(w, cx, qcx, consumer),")
        w('            _ => panic!("rig: bad par query index"),')
        w("        }")
        w("    }")
        w("    fn run_par_system(w: &mut Wd, qi: usize, cx: &ParCtx, qcx: &mut QCtx) {")
        w("        match qi {")
        for qi in range(npar):
            w(f"            {qi} => w.run_par_system(&mut ParSys{qi} {{ cx, qcx }}),")
        w('            _ => panic!("rig: bad par query index"),')
        w("        }")
        w("    }")
        w("    fn run_system(w: &mut Wd, qi: usize, qcx: &mut QCtx) {")
        w("        match qi {")
        for qi in range(npar):
            w(f"            {qi} => w.run_system(&mut Sys{qi} {{ cx: qcx }}),")
        w('            _ => panic!("rig: bad par query index"),')
        w("        }")
        w("    }")
        w("}")
        for qi in range(npar):
            self.emit_par(o, qi, queries[qi])
        return "\n".join(o) + "\n"

    def lt_view_ty(self, v, comp=None):
        comp = comp or self.C
        if v == "Id":
            return "entity::Identifier"
        k, vk = v
        c = comp(k)
        return {"Ref": f"&'a {c}", "Mut": f"&'a mut {c}", "OptRef": f"Option<&'a {c}>", "OptMut": f"Option<&'a mut {c}>"}[vk]

    def lt_views_ty(self, vs):
        return "Views!(" + ", ".join(self.lt_view_ty(v) for v in vs) + ")"

    def entry_block(self, w, entry, subs, res_var, ind):
        """Entry pass over cx.entry_targets using `<res_var>.entries`; observations go to `cx`."""
        if not entry:
            return
        w(f"{ind}for ti in 0..cx.entry_targets.len() {{")
        w(f"{ind}    let id = cx.entry_targets[ti];")
        w(f"{ind}    match {res_var}.entries.entry(id) {{")
        w(f"{ind}        None => cx.entry_missing(ti),")
        w(f"{ind}        Some(mut e) => {{")
        for si, (sv, sf) in enumerate(subs):
            spat = ", ".join(f"s{i}" for i in range(len(sv)))
            w(f"{ind}            cx.sub_begin(ti, {si});")
            w(f"{ind}            match e.query(Query::<{self.views_ty(sv)}, {self.filter_ty(sf)}>::new()) {{")
            w(f"{ind}                None => cx.sub_none(),")
            w(f"{ind}                Some(result!({spat})) => {{")
            for line in self.see_lines(sv, "s", ind + "                    "):
                w(line)
            w(f"{ind}                    cx.sub_some();")
            w(f"{ind}                }}")
            w(f"{ind}            }}")
        w(f"{ind}        }}")
        w(f"{ind}    }}")
        w(f"{ind}}}")

    def emit_par(self, o, qi, q):
        w = o.append
        views, flt, res, entry, subs = q["views"], q["filter"], q["res"], q["entry"], q["subs"]
        vty, fty = self.views_ty(views), self.filter_ty(flt)
        rty = "Views!(" + ", ".join(("&mut " if m else "&") + f"S{x}" for x, m in res) + ")"
        ety = self.views_ty(entry)
        pat = ", ".join(f"v{i}" for i in range(len(views)))
        see = [l.replace("cx.", "it.") for l in self.see_lines(views, "v", "")]
        body = "let mut it = pcx.item(); " + " ".join(see)
        w("#[allow(unused_variables, unused_mut, clippy::all)]")
        w(f"fn par_query_{qi}(w: &mut Wd, pcx: &ParCtx, cx: &mut QCtx, consumer: Consumer) -> usize {{")
        w(f"    let mut result = w.par_query(Query::<{vty}, {fty}, {rty}, {ety}>::new());")
        if res:
            rpat = ", ".join(f"r{i}" for i in range(len(res)))
            w(f"    let result!({rpat}) = result.resources;")
            for i, (x, m) in enumerate(res):
                w(f"    cx.see_res{'_mut' if m else ''}({x}, r{i});")
        w("    let iter = result.iter;")
        w("    let mut counted = 0usize;")
        w("    match consumer {")
        w(f"        Consumer::ForEach => iter.for_each(|result!({pat})| {{ {body} it.finish(); }}),")
        w(f"        Consumer::MapCollect => {{ let v: Vec<bvh::rig::Item> = iter.map(|result!({pat})| {{ {body} it.done().0 }}).collect(); for x in v {{ pcx.push(x); }} }}")
        w("        Consumer::Count => { counted = iter.count(); }")
        w(f"        Consumer::AnyFalse => {{ let r = iter.any(|result!({pat})| {{ {body} it.finish(); false }}); assert!(!r); }}")
        w(f"        Consumer::FindAny => {{ let _ = iter.find_map_any(|result!({pat})| {{ {body} if it.finish() {{ Some(()) }} else {{ None }} }}).is_some(); }}")
        w("    }")
        self.entry_block(w, entry, subs, "result", "    ")
        w("    counted")
        w("}")
        # systems
        lvty = self.lt_views_ty(views)
        lrty = "Views!(" + ", ".join(("&'a mut " if m else "&'a ") + f"S{x}" for x, m in res) + ")"
        lety = self.lt_views_ty(entry)
        for par in (True, False):
            name = f"ParSys{qi}" if par else f"Sys{qi}"
            if par:
                w(f"struct {name}<'c> {{ cx: &'c ParCtx, qcx: &'c mut QCtx }}")
                w(f"impl<'c> ParSystem for {name}<'c> {{")
            else:
                w(f"struct {name}<'c> {{ cx: &'c mut QCtx }}")
                w(f"impl<'c> System for {name}<'c> {{")
            w(f"    type Views<'a> = {lvty};")
            w(f"    type Filter = {self.filter_ty_static(flt)};")
            w(f"    type ResourceViews<'a> = {lrty};")
            w(f"    type EntryViews<'a> = {lety};")
            w("    #[allow(unused_variables, unused_mut, clippy::all)]")
            w("    fn run<'a, R, S, I, E>(&mut self, mut query_result: QResult<'a, R, S, I, Self::ResourceViews<'a>, Self::EntryViews<'a>, E>)")
            w("    where")
            w("        R: RegContainsViews<'a, Self::EntryViews<'a>, E>,")
            w(f"        I: {'ParallelIterator' if par else 'Iterator'}<Item = Self::Views<'a>>,")
            w("    {")
            if par:
                w("        let pcx = self.cx;")
                w("        let cx = &mut *self.qcx;")
            else:
                w("        let cx = &mut *self.cx;")
            if res:
                rpat = ", ".join(f"r{i}" for i in range(len(res)))
                w(f"        let result!({rpat}) = query_result.resources;")
                for i, (x, m) in enumerate(res):
                    w(f"        cx.see_res{'_mut' if m else ''}({x}, r{i});")
            if par:
                w(f"        query_result.iter.for_each(|result!({pat})| {{ {body} it.finish(); }});")
            else:
                w(f"        for result!({pat}) in query_result.iter {{")
                w("            cx.item_begin();")
                for line in self.see_lines(views, "v", "            "):
                    w(line)
                w("            cx.item_end();")
                w("        }")
            self.entry_block(w, entry, subs, "query_result", "        ")
            w("    }")
            w("}")

    def see_lines(self, views, prefix, indent):
        """Lines observing the bound variables prefix0.. for a views list."""
        out = []
        for i, v in enumerate(views):
            var = f"{prefix}{i}"
            if v == "Id":
                out.append(f"{indent}cx.see_id({var});")
            else:
                k, vk = v
                fn = {"Ref": "see", "Mut": "see_mut", "OptRef": "see_opt", "OptMut": "see_opt_mut"}[vk]
                out.append(f"{indent}cx.{fn}({k}, {var});")
        return out

    def emit_query(self, o, qi, q):
        w = o.append
        views, flt, res, entry, subs = q["views"], q["filter"], q["res"], q["entry"], q["subs"]
        vty = self.views_ty(views)
        fty = self.filter_ty(flt)
        rty = "Views!(" + ", ".join(("&mut " if m else "&") + f"S{x}" for x, m in res) + ")"
        ety = self.views_ty(entry)
        pat = ", ".join(f"v{i}" for i in range(len(views)))
        w(f"// {q['name']}: views={views} filter={flt} res={res} entry={entry} subs={subs}")
        w("#[allow(unused_variables, unused_mut, clippy::all)]")
        w(f"fn query_{qi}(w: &mut Wd, cx: &mut QCtx) {{")
        w(f"    let mut result = w.query(Query::<{vty}, {fty}, {rty}, {ety}>::new());")
        # resources first
        if res:
            rpat = ", ".join(f"r{i}" for i in range(len(res)))
            w(f"    let result!({rpat}) = result.resources;")
            for i, (x, m) in enumerate(res):
                w(f"    cx.see_res{'_mut' if m else ''}({x}, r{i});")
        # entry pass macro
        w("    macro_rules! entry_pass { () => {")
        if entry:
            w("        for ti in 0..cx.entry_targets.len() {")
            w("            let id = cx.entry_targets[ti];")
            w("            match result.entries.entry(id) {")
            w("                None => cx.entry_missing(ti),")
            w("                Some(mut e) => {")
            for si, (sv, sf) in enumerate(subs):
                spat = ", ".join(f"s{i}" for i in range(len(sv)))
                w(f"                    cx.sub_begin(ti, {si});")
                w(f"                    match e.query(Query::<{self.views_ty(sv)}, {self.filter_ty(sf)}>::new()) {{")
                w("                        None => cx.sub_none(),")
                w(f"                        Some(result!({spat})) => {{")
                for line in self.see_lines(sv, "s", "                            "):
                    w(line)
                w("                            cx.sub_some();")
                w("                        }")
                w("                    }")
            w("                }")
            w("            }")
            w("        }")
        w("    } }")
        body = ["cx.item_begin();"] + self.see_lines(views, "v", "") + ["cx.item_end();"]
        w("    let mut iter = result.iter;")
        w("    let mut did_entry = false;")
        w("    let split = match cx.mode { IterMode::Next => usize::MAX, IterMode::Fold => 0, IterMode::Mixed(s) => s, IterMode::Skip => 0 };")
        w("    let mut yielded = 0usize;")
        w("    let mut ended = false;")
        w("    if !matches!(cx.mode, IterMode::Skip) {")
        w("        while yielded < split {")
        w("            if cx.interleave_at == yielded && !did_entry { did_entry = true; entry_pass!(); }")
        w("            cx.hint(iter.size_hint());")
        w("            match iter.next() {")
        w("                None => { ended = true; break; }")
        w(f"                Some(result!({pat})) => {{")
        for line in body:
            w("                    " + line.strip())
        w("                    yielded += 1;")
        w("                }")
        w("            }")
        w("        }")
        w("        if ended {")
        w("            cx.hint(iter.size_hint());")
        w("            cx.next_after_end_was_none = Some(iter.next().is_none());")
        w("        } else {")
        w("            cx.hint(iter.size_hint());")
        w(f"            iter.for_each(|result!({pat})| {{")
        for line in body:
            w("                " + line.strip())
        w("            });")
        w("        }")
        w("    } else {")
        w("        drop(iter);")
        w("    }")
        w("    if !did_entry { entry_pass!(); }")
        w("}")
        # single-entity query through World::entry
        w("#[allow(unused_variables, unused_mut, clippy::all)]")
        w(f"fn entry_query_{qi}(w: &mut Wd, id: Identifier, cx: &mut QCtx) -> bool {{")
        w("    match w.entry(id) {")
        w("        None => false,")
        w("        Some(mut e) => {")
        w("            cx.sub_begin(0, 0);")
        w(f"            match e.query(Query::<{vty}, {fty}>::new()) {{")
        w("                None => cx.sub_none(),")
        w(f"                Some(result!({pat})) => {{")
        for line in self.see_lines(views, "v", "                    "):
            w(line)
        w("                    cx.sub_some();")
        w("                }")
        w("            }")
        w("            true")
        w("        }")
        w("    }")
        w("}")


if __name__ == "__main__":
    main()
