#!/usr/bin/env python3
"""C14: generate the paired accept/reject program family.

usage: gen_c14.py <outdir>
Writes <outdir>/<name>.rs (one complete program each) and <outdir>/index.json:
  [{name, class, expect: "reject"|"accept", twin_of?: name, why}]
Every *bad* program requests conflicting or thread-unsafe access and must be rejected by rustc;
its *twin* differs in one token (another component / resource, a Send+Sync payload) and must
compile (and, in the combined twin runner, execute cleanly under Miri).
"""
import json
import os
import sys

PRELUDE = r'''
#![allow(unused, clippy::all)]
use brood::{entities, entity, query::{filter, result, Result as QResult, Views}, registry::ContainsViews, resources, system::{schedule, schedule::task, ParSystem, System}, Entity, Query, Registry, Resources, World};
use std::{cell::Cell, rc::Rc};
#[derive(Clone, Debug, PartialEq)] pub struct A(pub u32);
#[derive(Clone, Debug, PartialEq)] pub struct B(pub u32);
#[derive(Clone, Debug, PartialEq)] pub struct C(pub u32);
/// not in the registry
#[derive(Clone, Debug, PartialEq)] pub struct D(pub u32);
/// neither Send nor Sync
pub struct NS(pub Rc<u32>);
/// Send but not Sync
pub struct NSY(pub Cell<u32>);
/// Sync but not Send (like a lock guard)
pub struct SNS(pub u32, pub std::marker::PhantomData<std::sync::MutexGuard<'static, ()>>);
pub type RegSNS = Registry!(A, SNS);
pub struct R1(pub u32);
pub struct R2(pub u32);
/// not in the resource list
pub struct RX(pub u32);
pub struct RNS(pub Rc<u32>);
pub struct RNSY(pub Cell<u32>);
pub type Reg = Registry!(A, B, C);
pub type RegNS = Registry!(A, NS);
pub type RegNSY = Registry!(A, NSY);
pub type Res = Resources!(R1, R2);
pub fn world() -> World<Reg, Res> {
    let mut w = World::<Reg, Res>::with_resources(resources!(R1(1), R2(2)));
    w.insert(entity!(A(1), B(2), C(3)));
    w.insert(entity!(A(4), B(5)));
    w.insert(entity!(A(6)));
    w
}
pub fn use2<T, U>(_a: T, _b: U) {}
pub fn require_send<T: Send>(t: T) -> T { t }
'''

KINDS = {"Ref": "&{}", "Mut": "&mut {}", "OptRef": "Option<&{}>", "OptMut": "Option<&mut {}>"}
MUT = {"Mut", "OptMut"}


def v(kind, comp):
    return KINDS[kind].format(comp)


def use_view(kind, var):
    """statement touching a view so that both references are simultaneously usable"""
    if kind == "Ref":
        return f"let _ = {var}.0;"
    if kind == "Mut":
        return f"{var}.0 += 1;"
    if kind == "OptRef":
        return f"let _ = {var}.map(|x| x.0);"
    return f"if let Some(x) = {var} {{ x.0 += 1; }}"


def touch(kind, var):
    """non-consuming use (the variable must be bound `mut`)"""
    if kind == "Ref":
        return f"let _ = {var}.0;"
    if kind == "Mut":
        return f"{var}.0 += 1;"
    if kind == "OptRef":
        return f"let _ = {var}.map(|v| v.0);"
    return f"if let Some(v) = {var}.as_deref_mut() {{ v.0 += 1; }}"


progs = []


def add(name, cls, expect, body, why, twin_of=None):
    progs.append(dict(name=name, cls=cls, expect=expect, body=body, why=why, twin_of=twin_of))


def pair(name, cls, bad_body, twin_body, why):
    add(name + "_bad", cls, "reject", bad_body, why)
    add(name + "_twin", cls, "accept", twin_body, why, twin_of=name + "_bad")


# ---- family 1: two views of one component within one query's views
for k1 in KINDS:
    for k2 in KINDS:
        if k1 in MUT or k2 in MUT:
            def body(c2, k1=k1, k2=k2):
                return f'''
    let mut w = world();
    for result!(x, y) in w.query(Query::<Views!({v(k1, "A")}, {v(k2, c2)})>::new()).iter {{
        {use_view(k1, "x")}
        {use_view(k2, "y")}
    }}'''
            pair(f"views_{k1}_{k2}", "views/views", body("A"), body("B"), f"views {k1} A and {k2} A in one query")

# ---- family 2: views x entry views
for k1 in KINDS:
    for k2 in KINDS:
        if k1 in MUT or k2 in MUT:
            def body(c2, k1=k1, k2=k2):
                return f'''
    let mut w = world();
    let id = w.insert(entity!(A(9), B(9)));
    let mut r = w.query(Query::<Views!({v(k1, "A")}), filter::None, Views!(), Views!({v(k2, c2)})>::new());
    for result!(x) in r.iter {{
        if let Some(mut e) = r.entries.entry(id) {{
            if let Some(result!(y)) = e.query(Query::<Views!({v(k2, c2)})>::new()) {{
                {use_view(k2, "y")}
            }}
        }}
        {use_view(k1, "x")}
    }}'''
            pair(f"views_entry_{k1}_{k2}", "views/entry views", body("A"), body("B"), f"iterator views {k1} A while entry views {k2} A")

# ---- family 3: entry views x entry views
for k1 in KINDS:
    for k2 in KINDS:
        if k1 in MUT or k2 in MUT:
            def body(c2, k1=k1, k2=k2):
                return f'''
    let mut w = world();
    let id = w.insert(entity!(A(9), B(9)));
    let mut r = w.query(Query::<Views!(), filter::None, Views!(), Views!({v(k1, "A")}, {v(k2, c2)})>::new());
    if let Some(mut e) = r.entries.entry(id) {{
        let _ = e.query(Query::<Views!({v("OptRef", "A")})>::new());
    }}'''
            pair(f"entry_entry_{k1}_{k2}", "entry/entry", body("A"), body("B"), f"entry views {k1} A and {k2} A")

# ---- family 4: sub views that are not a subset of the entry views
for sub, sup in [("Mut", "Ref"), ("Mut", "OptRef"), ("OptMut", "Ref"), ("OptMut", "OptRef")]:
    def body(subk, sub=sub, sup=sup):
        return f'''
    let mut w = world();
    let id = w.insert(entity!(A(9), B(9)));
    let mut r = w.query(Query::<Views!(), filter::None, Views!(), Views!({v(sup, "A")})>::new());
    if let Some(mut e) = r.entries.entry(id) {{
        if let Some(result!(y)) = e.query(Query::<Views!({v(subk, "A")})>::new()) {{
            {use_view(subk, "y")}
        }}
    }}'''
    twin_kind = "Ref" if sub == "Mut" else "OptRef"
    pair(f"subview_{sub}_of_{sup}", "sub-view/super-view", body(sub), body(twin_kind), f"sub view {sub} A of entry view {sup} A")
add("subview_outside_bad", "sub-view/super-view", "reject", '''
    let mut w = world();
    let id = w.insert(entity!(A(9), B(9)));
    let mut r = w.query(Query::<Views!(), filter::None, Views!(), Views!(&mut A)>::new());
    if let Some(mut e) = r.entries.entry(id) {
        let _ = e.query(Query::<Views!(&B)>::new());
    }''', "sub view of a component that is not among the entry views")
add("subview_outside_twin", "sub-view/super-view", "accept", '''
    let mut w = world();
    let id = w.insert(entity!(A(9), B(9)));
    let mut r = w.query(Query::<Views!(), filter::None, Views!(), Views!(&mut A, &B)>::new());
    if let Some(mut e) = r.entries.entry(id) {
        let _ = e.query(Query::<Views!(&B)>::new());
    }''', "sub view of a component among the entry views", twin_of="subview_outside_bad")

# ---- family 5: repeated queries with results alive
for k1, k2 in [("Mut", "Mut"), ("Mut", "Ref"), ("OptMut", "OptMut")]:
    pair(f"entry_requery_{k1}_{k2}", "repeated entry queries", f'''
    let mut w = world();
    let id = w.insert(entity!(A(9), B(9)));
    let mut r = w.query(Query::<Views!(), filter::None, Views!(), Views!(&mut A, &mut B)>::new());
    let mut e = r.entries.entry(id).unwrap();
    let result!(x) = e.query(Query::<Views!({v(k1, "A")})>::new()).unwrap();
    let result!(y) = e.query(Query::<Views!({v(k2, "A")})>::new()).unwrap();
    let (mut x, mut y) = (x, y);
    {touch(k1, "x")}
    {touch(k2, "y")}
    {touch(k1, "x")}''', f'''
    let mut w = world();
    let id = w.insert(entity!(A(9), B(9)));
    let mut r = w.query(Query::<Views!(), filter::None, Views!(), Views!(&mut A, &mut B)>::new());
    let mut e = r.entries.entry(id).unwrap();
    {{
        let result!(x) = e.query(Query::<Views!({v(k1, "A")})>::new()).unwrap();
        {use_view(k1, "x")}
    }}
    let result!(y) = e.query(Query::<Views!({v(k2, "A")})>::new()).unwrap();
    {use_view(k2, "y")}''', f"two results of Entry::query ({k1} A, {k2} A) alive at once")
pair("entries_entry_twice", "repeated entry queries", '''
    let mut w = world();
    let id = w.insert(entity!(A(9), B(9)));
    let mut r = w.query(Query::<Views!(), filter::None, Views!(), Views!(&mut A)>::new());
    let mut e1 = r.entries.entry(id).unwrap();
    let mut e2 = r.entries.entry(id).unwrap();
    let _ = e1.query(Query::<Views!(&mut A)>::new());
    let _ = e2.query(Query::<Views!(&mut A)>::new());''', '''
    let mut w = world();
    let id = w.insert(entity!(A(9), B(9)));
    let mut r = w.query(Query::<Views!(), filter::None, Views!(), Views!(&mut A)>::new());
    { let mut e1 = r.entries.entry(id).unwrap(); let _ = e1.query(Query::<Views!(&mut A)>::new()); }
    let mut e2 = r.entries.entry(id).unwrap();
    let _ = e2.query(Query::<Views!(&mut A)>::new());''', "two Entries::entry handles alive at once")
pair("world_entry_query_twice", "repeated entry queries", '''
    let mut w = world();
    let id = w.insert(entity!(A(9), B(9)));
    let mut e = w.entry(id).unwrap();
    let result!(x) = e.query(Query::<Views!(&mut A)>::new()).unwrap();
    let result!(y) = e.query(Query::<Views!(&mut A)>::new()).unwrap();
    x.0 += 1; y.0 += 1; x.0 += 1;''', '''
    let mut w = world();
    let id = w.insert(entity!(A(9), B(9)));
    let mut e = w.entry(id).unwrap();
    { let result!(x) = e.query(Query::<Views!(&mut A)>::new()).unwrap(); x.0 += 1; }
    let result!(y) = e.query(Query::<Views!(&mut A)>::new()).unwrap();
    y.0 += 1;''', "two results of world::Entry::query alive at once")
pair("world_query_twice", "repeated entry queries", '''
    let mut w = world();
    let r1 = w.query(Query::<Views!(&mut A)>::new());
    let r2 = w.query(Query::<Views!(&mut A)>::new());
    for result!(x) in r1.iter { x.0 += 1; }
    for result!(y) in r2.iter { y.0 += 1; }''', '''
    let mut w = world();
    let r1 = w.query(Query::<Views!(&mut A)>::new());
    for result!(x) in r1.iter { x.0 += 1; }
    let r2 = w.query(Query::<Views!(&mut A)>::new());
    for result!(y) in r2.iter { y.0 += 1; }''', "two query results alive at once")
pair("world_mutated_during_query", "repeated entry queries", '''
    let mut w = world();
    let r1 = w.query(Query::<Views!(&A)>::new());
    w.insert(entity!(A(1)));
    for result!(x) in r1.iter { let _ = x.0; }''', '''
    let mut w = world();
    w.insert(entity!(A(1)));
    let r1 = w.query(Query::<Views!(&A)>::new());
    for result!(x) in r1.iter { let _ = x.0; }''', "world mutated while a query result is alive")

# ---- family 6: resource views
for a, b in [("&mut R1", "&R1"), ("&R1", "&mut R1"), ("&mut R1", "&mut R1")]:
    b2 = b.replace("R1", "R2")
    pair(f"res_view_{a}_{b}".replace("&mut ", "mut_").replace("&", "ref_").replace(" ", ""), "resource views", f'''
    let mut w = world();
    let result!(x, y) = w.view_resources::<Views!({a}, {b}), _>();
    use2(x, y);''', f'''
    let mut w = world();
    let result!(x, y) = w.view_resources::<Views!({a}, {b2}), _>();
    use2(x, y);''', f"view_resources {a} and {b}")
    pair(f"res_query_{a}_{b}".replace("&mut ", "mut_").replace("&", "ref_").replace(" ", ""), "resource views", f'''
    let mut w = world();
    let r = w.query(Query::<Views!(&A), filter::None, Views!({a}, {b})>::new());
    let result!(x, y) = r.resources;
    use2(x, y);''', f'''
    let mut w = world();
    let r = w.query(Query::<Views!(&A), filter::None, Views!({a}, {b2})>::new());
    let result!(x, y) = r.resources;
    use2(x, y);''', f"query resource views {a} and {b}")
pair("res_get_while_get_mut", "resource views", '''
    let mut w = world();
    let x = w.get_mut::<R1, _>();
    let y = w.get::<R1, _>();
    x.0 += y.0;''', '''
    let mut w = world();
    let y = w.get::<R1, _>().0;
    let x = w.get_mut::<R1, _>();
    x.0 += y;''', "get while get_mut result alive")

# ---- family 7: components / resources outside the registry
outside = [
    ("insert", "w.insert(entity!(A(1), D(2)));", "w.insert(entity!(A(1), B(2)));"),
    ("extend", "w.extend(entities!((A(1), D(2)), (A(3), D(4))));", "w.extend(entities!((A(1), B(2)), (A(3), B(4))));"),
    ("query_ref", "for result!(x) in w.query(Query::<Views!(&D)>::new()).iter { let _ = x.0; }", "for result!(x) in w.query(Query::<Views!(&B)>::new()).iter { let _ = x.0; }"),
    ("query_opt", "for result!(x) in w.query(Query::<Views!(Option<&mut D>)>::new()).iter { let _ = x; }", "for result!(x) in w.query(Query::<Views!(Option<&mut B>)>::new()).iter { let _ = x; }"),
    ("entry_add", "let id = w.insert(entity!(A(1))); w.entry(id).unwrap().add(D(1));", "let id = w.insert(entity!(A(1))); w.entry(id).unwrap().add(B(1));"),
    ("entry_remove", "let id = w.insert(entity!(A(1))); w.entry(id).unwrap().remove::<D, _>();", "let id = w.insert(entity!(A(1))); w.entry(id).unwrap().remove::<B, _>();"),
    ("reserve", "w.reserve::<Entity!(A, D), _>(4);", "w.reserve::<Entity!(A, B), _>(4);"),
    ("entry_views", "let _ = w.query(Query::<Views!(&A), filter::None, Views!(), Views!(&mut D)>::new());", "let _ = w.query(Query::<Views!(&A), filter::None, Views!(), Views!(&mut B)>::new());"),
    ("get_resource", "let _ = w.get::<RX, _>().0;", "let _ = w.get::<R2, _>().0;"),
    ("get_mut_resource", "w.get_mut::<RX, _>().0 += 1;", "w.get_mut::<R2, _>().0 += 1;"),
    ("view_resource", "let result!(x) = w.view_resources::<Views!(&RX), _>(); let _ = x.0;", "let result!(x) = w.view_resources::<Views!(&R2), _>(); let _ = x.0;"),
    ("query_resource", "let r = w.query(Query::<Views!(&A), filter::None, Views!(&mut RX)>::new()); let result!(x) = r.resources; x.0 += 1;", "let r = w.query(Query::<Views!(&A), filter::None, Views!(&mut R2)>::new()); let result!(x) = r.resources; x.0 += 1;"),
]
for name, bad, twin in outside:
    pair(f"outside_{name}", "outside registry", f"\n    let mut w = world();\n    {bad}", f"\n    let mut w = world();\n    {twin}", f"{name} with a component / resource that is not registered")

# ---- family 8: thread crossing with non-Send / non-Sync payloads
SYS = '''
struct Sys<T>(T);
impl<T: 'static> System for Sys<T> {{
    type Views<'a> = Views!({views});
    type Filter = filter::None;
    type ResourceViews<'a> = Views!({res});
    type EntryViews<'a> = Views!({entry});
    fn run<'a, R, S, I, E>(&mut self, q: QResult<'a, R, S, I, Self::ResourceViews<'a>, Self::EntryViews<'a>, E>)
    where R: ContainsViews<'a, Self::EntryViews<'a>, E>, I: Iterator<Item = Self::Views<'a>> {{
        for _ in q.iter {{}}
    }}
}}
'''
PSYS = '''
struct PSys;
impl ParSystem for PSys {{
    type Views<'a> = Views!({views});
    type Filter = filter::None;
    type ResourceViews<'a> = Views!();
    type EntryViews<'a> = Views!();
    fn run<'a, R, S, I, E>(&mut self, q: QResult<'a, R, S, I, Self::ResourceViews<'a>, Self::EntryViews<'a>, E>)
    where R: ContainsViews<'a, Self::EntryViews<'a>, E>, I: rayon::iter::ParallelIterator<Item = Self::Views<'a>> {{
        use rayon::iter::ParallelIterator;
        q.iter.for_each(|_| {{}});
    }}
}}
'''


def thread_pair(name, bad, twin, why, items_bad="", items_twin=""):
    add(name + "_bad", "thread crossing", "reject", bad, why)
    progs[-1]["items"] = items_bad
    add(name + "_twin", "thread crossing", "accept", twin, why, twin_of=name + "_bad")
    progs[-1]["items"] = items_twin


def nsw(reg, ent):
    return f"let mut w = World::<{reg}>::new(); w.insert(entity!({ent}));"


thread_pair("send_world_rc", f'''
    {nsw("RegNS", "A(1), NS(Rc::new(1))")}
    std::thread::spawn(move || {{ let _ = w.len(); }}).join().unwrap();''', f'''
    {nsw("Reg", "A(1), B(1)")}
    std::thread::spawn(move || {{ let _ = w.len(); }}).join().unwrap();''', "World holding Rc components moved to another thread")
thread_pair("share_world_cell", f'''
    {nsw("RegNSY", "A(1), NSY(Cell::new(1))")}
    std::thread::scope(|s| {{ s.spawn(|| {{ let _ = w.len(); }}); }});''', f'''
    {nsw("Reg", "A(1), B(1)")}
    std::thread::scope(|s| {{ s.spawn(|| {{ let _ = w.len(); }}); }});''', "&World holding Cell components shared with another thread")
thread_pair("send_world_rc_resource", '''
    let w = World::<Reg, Resources!(RNS)>::with_resources(resources!(RNS(Rc::new(1))));
    std::thread::spawn(move || { let _ = w.len(); }).join().unwrap();''', '''
    let w = World::<Reg, Resources!(R1)>::with_resources(resources!(R1(1)));
    std::thread::spawn(move || { let _ = w.len(); }).join().unwrap();''', "World holding an Rc resource moved to another thread")
thread_pair("share_world_cell_resource", '''
    let w = World::<Reg, Resources!(RNSY)>::with_resources(resources!(RNSY(Cell::new(1))));
    std::thread::scope(|s| { s.spawn(|| { let _ = w.get::<RNSY, _>().0.get(); }); });''', '''
    let w = World::<Reg, Resources!(R1)>::with_resources(resources!(R1(1)));
    std::thread::scope(|s| { s.spawn(|| { let _ = w.get::<R1, _>().0; }); });''', "&World holding a Cell resource shared with another thread")
thread_pair("send_iter_cell_ref", f'''
    {nsw("RegNSY", "A(1), NSY(Cell::new(1))")}
    let r = w.query(Query::<Views!(&NSY), filter::None, Views!(), Views!(&NSY)>::new());
    let iter = r.iter;
    let mut entries = r.entries;
    let id = brood::entity::Identifier::clone(&r_id());
    std::thread::scope(|s| {{
        s.spawn(move || {{ for result!(x) in iter {{ x.0.set(x.0.get() + 1); }} }});
        if let Some(mut e) = entries.entry(id) {{ if let Some(result!(y)) = e.query(Query::<Views!(&NSY)>::new()) {{ y.0.set(y.0.get() + 1); }} }}
    }});''', f'''
    {nsw("Reg", "A(1), B(1)")}
    let r = w.query(Query::<Views!(&B), filter::None, Views!(), Views!(&B)>::new());
    let iter = r.iter;
    let mut entries = r.entries;
    let id = brood::entity::Identifier::clone(&r_id());
    std::thread::scope(|s| {{
        s.spawn(move || {{ for result!(x) in iter {{ let _ = x.0; }} }});
        if let Some(mut e) = entries.entry(id) {{ if let Some(result!(y)) = e.query(Query::<Views!(&B)>::new()) {{ let _ = y.0; }} }}
    }});''', "query iterator over &Cell components moved to another thread while entry views read the same cells",
            items_bad="fn r_id() -> brood::entity::Identifier { let mut w = World::<RegNSY>::new(); w.insert(entity!(A(1), NSY(Cell::new(1)))) }",
            items_twin="fn r_id() -> brood::entity::Identifier { let mut w = World::<Reg>::new(); w.insert(entity!(A(1), B(1))) }")
thread_pair("send_iter_rc_mut", f'''
    {nsw("RegNS", "A(1), NS(Rc::new(1))")}
    let r = w.query(Query::<Views!(&mut NS)>::new());
    let iter = r.iter;
    std::thread::scope(|s| {{ s.spawn(move || {{ for result!(x) in iter {{ let _ = x.0.clone(); }} }}); }});''', f'''
    {nsw("Reg", "A(1), B(1)")}
    let r = w.query(Query::<Views!(&mut B)>::new());
    let iter = r.iter;
    std::thread::scope(|s| {{ s.spawn(move || {{ for result!(x) in iter {{ x.0 += 1; }} }}); }});''', "query iterator over &mut Rc components moved to another thread")
thread_pair("send_entries_cell", f'''
    {nsw("RegNSY", "A(1), NSY(Cell::new(1))")}
    let r = w.query(Query::<Views!(&A), filter::None, Views!(), Views!(&NSY)>::new());
    let entries = r.entries;
    std::thread::scope(|s| {{ s.spawn(move || {{ let _e = entries; }}); }});''', f'''
    {nsw("Reg", "A(1), B(1)")}
    let r = w.query(Query::<Views!(&A), filter::None, Views!(), Views!(&B)>::new());
    let entries = r.entries;
    std::thread::scope(|s| {{ s.spawn(move || {{ let _e = entries; }}); }});''', "Entries handle with &Cell entry views moved to another thread")
thread_pair("share_entries_rc", f'''
    {nsw("RegNS", "A(1), NS(Rc::new(1))")}
    let r = w.query(Query::<Views!(&A), filter::None, Views!(), Views!(&mut NS)>::new());
    let entries = &r.entries;
    std::thread::scope(|s| {{ s.spawn(move || {{ let _e = entries; }}); }});''', f'''
    {nsw("Reg", "A(1), B(1)")}
    let r = w.query(Query::<Views!(&A), filter::None, Views!(), Views!(&mut B)>::new());
    let entries = &r.entries;
    std::thread::scope(|s| {{ s.spawn(move || {{ let _e = entries; }}); }});''', "&Entries with &mut Rc entry views shared with another thread")
thread_pair("send_world_guardlike", f'''
    {nsw("RegSNS", "A(1), SNS(1, std::marker::PhantomData)")}
    std::thread::spawn(move || {{ let _ = w.len(); }}).join().unwrap();''', f'''
    {nsw("Reg", "A(1), B(1)")}
    std::thread::spawn(move || {{ let _ = w.len(); }}).join().unwrap();''', "World holding Sync-but-not-Send components moved to another thread")
thread_pair("send_iter_guardlike_mut", f'''
    {nsw("RegSNS", "A(1), SNS(1, std::marker::PhantomData)")}
    let r = w.query(Query::<Views!(&mut SNS)>::new());
    let iter = r.iter;
    std::thread::scope(|s| {{ s.spawn(move || {{ for result!(x) in iter {{ x.0 += 1; }} }}); }});''', f'''
    {nsw("Reg", "A(1), B(1)")}
    let r = w.query(Query::<Views!(&mut B)>::new());
    let iter = r.iter;
    std::thread::scope(|s| {{ s.spawn(move || {{ for result!(x) in iter {{ x.0 += 1; }} }}); }});''', "query iterator over &mut (Sync, !Send) components moved to another thread")
thread_pair("send_entries_guardlike_mut", f'''
    {nsw("RegSNS", "A(1), SNS(1, std::marker::PhantomData)")}
    let r = w.query(Query::<Views!(&A), filter::None, Views!(), Views!(&mut SNS)>::new());
    let entries = r.entries;
    std::thread::scope(|s| {{ s.spawn(move || {{ let _e = entries; }}); }});''', f'''
    {nsw("Reg", "A(1), B(1)")}
    let r = w.query(Query::<Views!(&A), filter::None, Views!(), Views!(&mut B)>::new());
    let entries = r.entries;
    std::thread::scope(|s| {{ s.spawn(move || {{ let _e = entries; }}); }});''', "Entries handle with &mut (Sync, !Send) entry views moved to another thread")
thread_pair("send_entries_guardlike_optmut", f'''
    {nsw("RegSNS", "A(1), SNS(1, std::marker::PhantomData)")}
    let r = w.query(Query::<Views!(&A), filter::None, Views!(), Views!(Option<&mut SNS>)>::new());
    let entries = r.entries;
    std::thread::scope(|s| {{ s.spawn(move || {{ let _e = entries; }}); }});''', f'''
    {nsw("Reg", "A(1), B(1)")}
    let r = w.query(Query::<Views!(&A), filter::None, Views!(), Views!(Option<&mut B>)>::new());
    let entries = r.entries;
    std::thread::scope(|s| {{ s.spawn(move || {{ let _e = entries; }}); }});''', "Entries handle with Option<&mut (Sync, !Send)> entry views moved to another thread")
thread_pair("par_query_guardlike_mut", f'''
    use rayon::iter::ParallelIterator;
    {nsw("RegSNS", "A(1), SNS(1, std::marker::PhantomData)")}
    w.par_query(Query::<Views!(&mut SNS)>::new()).iter.for_each(|result!(x)| {{ x.0 += 1; }});''', f'''
    use rayon::iter::ParallelIterator;
    {nsw("Reg", "A(1), B(1)")}
    w.par_query(Query::<Views!(&mut B)>::new()).iter.for_each(|result!(x)| {{ x.0 += 1; }});''', "par_query viewing &mut (Sync, !Send) components")
thread_pair("par_query_cell_ref", f'''
    use rayon::iter::ParallelIterator;
    {nsw("RegNSY", "A(1), NSY(Cell::new(1))")}
    w.par_query(Query::<Views!(&NSY)>::new()).iter.for_each(|result!(x)| {{ x.0.set(2); }});''', f'''
    use rayon::iter::ParallelIterator;
    {nsw("Reg", "A(1), B(1)")}
    w.par_query(Query::<Views!(&B)>::new()).iter.for_each(|result!(x)| {{ let _ = x.0; }});''', "par_query viewing &Cell components")
thread_pair("par_query_rc_mut", f'''
    use rayon::iter::ParallelIterator;
    {nsw("RegNS", "A(1), NS(Rc::new(1))")}
    w.par_query(Query::<Views!(&mut NS)>::new()).iter.for_each(|result!(x)| {{ let _ = x.0.clone(); }});''', f'''
    use rayon::iter::ParallelIterator;
    {nsw("Reg", "A(1), B(1)")}
    w.par_query(Query::<Views!(&mut B)>::new()).iter.for_each(|result!(x)| {{ x.0 += 1; }});''', "par_query viewing &mut Rc components")
thread_pair("par_system_cell_ref", f'''
    {nsw("RegNSY", "A(1), NSY(Cell::new(1))")}
    w.run_par_system(&mut PSys);''', f'''
    {nsw("Reg", "A(1), B(1)")}
    w.run_par_system(&mut PSys);''', "run_par_system viewing &Cell components", items_bad=PSYS.format(views="&'a NSY"), items_twin=PSYS.format(views="&'a B"))
for what, views_b, views_t, res_b, res_t, entry_b, entry_t, state_b, state_t, regb in [
    ("views_cell", "&'a NSY", "&'a B", "", "", "", "", "0u32", "0u32", "RegNSY"),
    ("views_rc_mut", "&'a mut NS", "&'a mut B", "", "", "", "", "0u32", "0u32", "RegNS"),
    ("entry_views_cell", "&'a A", "&'a A", "", "", "&'a NSY", "&'a B", "0u32", "0u32", "RegNSY"),
    ("system_state_rc", "&'a A", "&'a A", "", "", "", "", "Rc::new(0u32)", "0u32", "Reg"),
]:
    ent_b = {"RegNSY": "A(1), NSY(Cell::new(1))", "RegNS": "A(1), NS(Rc::new(1))", "Reg": "A(1), B(1)"}[regb]
    thread_pair(f"schedule_{what}", f'''
    {nsw(regb, ent_b)}
    let mut s = schedule!(task::System(Sys({state_b})));
    w.run_schedule(&mut s);''', f'''
    {nsw("Reg", "A(1), B(1)")}
    let mut s = schedule!(task::System(Sys({state_t})));
    w.run_schedule(&mut s);''', f"run_schedule with non-thread-safe {what}", items_bad=SYS.format(views=views_b, res=res_b, entry=entry_b), items_twin=SYS.format(views=views_t, res=res_t, entry=entry_t))
thread_pair("schedule_resource_cell", '''
    let mut w = World::<Reg, Resources!(RNSY)>::with_resources(resources!(RNSY(Cell::new(1))));
    let mut s = schedule!(task::System(Sys(0u32)));
    w.run_schedule(&mut s);''', '''
    let mut w = World::<Reg, Resources!(R1)>::with_resources(resources!(R1(1)));
    let mut s = schedule!(task::System(Sys(0u32)));
    w.run_schedule(&mut s);''', "run_schedule with a resource view of a non-Sync resource", items_bad=SYS.format(views="&'a A", res="&'a RNSY", entry=""), items_twin=SYS.format(views="&'a A", res="&'a R1", entry=""))


def render(p, standalone=True):
    items = p.get("items", "")
    body = f"{items}\npub fn run() {{{p['body']}\n}}\n"
    if standalone:
        return PRELUDE + body + "fn main() { run(); }\n"
    return f"pub mod {p['name']} {{\n    use super::*;\n{body}}}\n"


def main():
    out = sys.argv[1]
    os.makedirs(out, exist_ok=True)
    index = []
    for p in progs:
        with open(os.path.join(out, p["name"] + ".rs"), "w") as f:
            f.write(render(p))
        index.append(dict(name=p["name"], cls=p["cls"], expect=p["expect"], twin_of=p.get("twin_of"), why=p["why"]))
    # combined runner of every program expected to compile (executed under Miri)
    acc = [p for p in progs if p["expect"] == "accept"]
    with open(os.path.join(out, "all_twins.rs"), "w") as f:
        f.write(PRELUDE)
        for p in acc:
            f.write(render(p, standalone=False))
        f.write("fn main() {\n")
        for p in acc:
            f.write(f'    {p["name"]}::run();\n')
        f.write(f'    println!("TWINS-RAN {len(acc)}");\n}}\n')
    json.dump(index, open(os.path.join(out, "index.json"), "w"), indent=1)
    print(f"{len(progs)} programs ({len(acc)} expected to compile)")


if __name__ == "__main__":
    main()
