fn main() {
    println!("cargo:rerun-if-env-changed=C14_PROG");
    let p = std::env::var("C14_PROG").unwrap_or_else(|_| format!("{}/src/empty.rs", std::env::var("CARGO_MANIFEST_DIR").unwrap()));
    println!("cargo:rerun-if-changed={p}");
    // inner attributes are not allowed in an included file: strip them (main.rs carries the allow)
    let text = std::fs::read_to_string(&p).expect("read program");
    let body: String = text.lines().filter(|l| !l.trim_start().starts_with("#![")).collect::<Vec<_>>().join("\n");
    let out = format!("{}/prog.rs", std::env::var("OUT_DIR").unwrap());
    std::fs::write(&out, body).expect("write program");
}
