#![allow(unused, clippy::all)]
include!(concat!(env!("OUT_DIR"), "/prog.rs"));
