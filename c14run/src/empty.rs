fn main() {}
