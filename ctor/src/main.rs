//! C18 monitor: run-time safety preconditions are enforced at the safe API boundary.
//! Exhaustive over the generated registry family and over batch column lengths.

use brood::{entities, registry, resource, resources, Registry, World};
use bvh::payload::{Med, Payload, Small, Zst, Heap};
use serde::{Deserialize as _, Serialize as _};
use std::panic::{catch_unwind, AssertUnwindSafe};

#[derive(Default)]
pub struct Report {
    pub cases: u64,
    pub dup_registries: u64,
    pub constructors_panicked: u64,
    pub constructors_err: u64,
    pub twins_returned: u64,
    pub batches: u64,
    pub ragged_rejected: u64,
    pub equal_accepted: u64,
    pub violations: Vec<(String, String)>,
    pub samples: Vec<String>,
    pub distinct: std::collections::BTreeSet<String>,
}

fn quiet<T>(f: impl FnOnce() -> T) -> Result<T, String> {
    catch_unwind(AssertUnwindSafe(f)).map_err(|e| bvh::seq::panic_msg(&e))
}

/// What one constructor did.
enum Outcome {
    Returned,
    Panicked,
    Errored,
}

fn record_dup(name: &str, ctor: &str, o: Outcome, rep: &mut Report) {
    rep.cases += 1;
    rep.distinct.insert(format!("dup {name} via {ctor}"));
    match o {
        Outcome::Panicked => rep.constructors_panicked += 1,
        Outcome::Errored => rep.constructors_err += 1,
        Outcome::Returned => rep.violations.push((
            format!("duplicate_registry_accepted@{ctor}"),
            format!("{ctor} returned a World for a registry listing the same component type twice ({name})"),
        )),
    }
}

type Res1 = brood::Resources!(Med<40>);

fn dup_case<D, T>(name: &str, rep: &mut Report)
where
    D: registry::Registry + registry::Serialize + for<'de> registry::Deserialize<'de>,
    T: registry::Registry + registry::Serialize + for<'de> registry::Deserialize<'de>,
{
    rep.dup_registries += 1;
    let o = match quiet(|| drop(World::<D>::new())) {
        Ok(()) => Outcome::Returned,
        Err(_) => Outcome::Panicked,
    };
    record_dup(name, "World::new", o, rep);
    let o = match quiet(|| drop(World::<D, Res1>::with_resources(resources!(Med::<40>::make(1))))) {
        Ok(()) => Outcome::Returned,
        Err(_) => Outcome::Panicked,
    };
    record_dup(name, "World::with_resources", o, rep);
    let o = match quiet(|| drop(<World<D> as Default>::default())) {
        Ok(()) => Outcome::Returned,
        Err(_) => Outcome::Panicked,
    };
    record_dup(name, "Default::default", o, rep);
    // deserialization from the (valid) empty-world serialization of the duplicate-free twin
    let twin = World::<T>::new();
    let text = serde_json::to_string(&twin).expect("serialize twin");
    let o = match quiet(|| serde_json::from_str::<World<D>>(&text).map(drop)) {
        Ok(Ok(())) => Outcome::Returned,
        Ok(Err(_)) => Outcome::Errored,
        Err(_) => Outcome::Panicked,
    };
    record_dup(name, "Deserialize(json)", o, rep);
    for readable in [true, false] {
        let ser = serde_assert::Serializer::builder().is_human_readable(readable).build();
        let tokens = twin.serialize(&ser).expect("serialize twin");
        let o = match quiet(|| {
            let mut de = serde_assert::Deserializer::builder().tokens(tokens).is_human_readable(readable).self_describing(false).build();
            World::<D>::deserialize(&mut de).map(drop)
        }) {
            Ok(Ok(())) => Outcome::Returned,
            Ok(Err(_)) => Outcome::Errored,
            Err(_) => Outcome::Panicked,
        };
        record_dup(name, if readable { "Deserialize(tokens readable)" } else { "Deserialize(tokens compact)" }, o, rep);
    }
    if rep.samples.len() < 3 {
        rep.samples.push(format!("registry {name}: new/with_resources/default/deserialize x3 under catch_unwind"));
    }
}

fn twin_case<T>(name: &str, rep: &mut Report)
where
    T: registry::Registry + registry::Serialize + for<'de> registry::Deserialize<'de>,
{
    let mut ok = |ctor: &str, r: Result<(), String>, rep: &mut Report| {
        rep.cases += 1;
        rep.distinct.insert(format!("twin {name} via {ctor}"));
        match r {
            Ok(()) => rep.twins_returned += 1,
            Err(e) => rep.violations.push((format!("valid_registry_rejected@{ctor}"), format!("{ctor} failed for a duplicate-free registry ({name}): {e}"))),
        }
    };
    ok("World::new", quiet(|| drop(World::<T>::new())), rep);
    ok("World::with_resources", quiet(|| drop(World::<T, Res1>::with_resources(resources!(Med::<40>::make(1))))), rep);
    ok("Default::default", quiet(|| drop(<World<T> as Default>::default())), rep);
    let twin = World::<T>::new();
    let text = serde_json::to_string(&twin).expect("serialize twin");
    ok(
        "Deserialize(json)",
        quiet(|| serde_json::from_str::<World<T>>(&text).map(drop).map_err(|e| e.to_string())).and_then(|r| r),
        rep,
    );
    for readable in [true, false] {
        let ser = serde_assert::Serializer::builder().is_human_readable(readable).build();
        let tokens = twin.serialize(&ser).expect("serialize twin");
        let r = quiet(|| {
            let mut de = serde_assert::Deserializer::builder().tokens(tokens).is_human_readable(readable).self_describing(false).build();
            World::<T>::deserialize(&mut de).map(drop).map_err(|e| e.to_string())
        })
        .and_then(|r| r);
        ok(if readable { "Deserialize(tokens readable)" } else { "Deserialize(tokens compact)" }, r, rep);
    }
}

include!(concat!(env!("OUT_DIR"), "/cases.rs"));

// ---------------------------------------------------------------------------------------------
// Batches

type B0 = Med<0>;
type B1 = Heap<1>;
type B2 = Small<2>;
type B3 = Zst<3>;
type BReg = Registry!(B0, B1, B2, B3);

fn v<P: Payload>(n: usize, base: u64) -> Vec<P> {
    (0..n).map(|i| P::make(base + i as u64)).collect()
}

fn batch_outcome(lens: &[usize], r: Result<usize, String>, rep: &mut Report) {
    rep.cases += 1;
    rep.batches += 1;
    rep.distinct.insert(format!("batch lens={lens:?}"));
    let ragged = lens.iter().any(|l| *l != lens[0]);
    match (ragged, r) {
        (true, Err(_)) => rep.ragged_rejected += 1,
        (false, Ok(n)) => {
            rep.equal_accepted += 1;
            if n != lens[0] {
                rep.violations.push(("batch_len_wrong".into(), format!("batch with equal column lengths {lens:?} stored {n} entities")));
            }
        }
        (true, Ok(n)) => rep.violations.push((
            "ragged_batch_accepted".into(),
            format!("Batch::new returned for column lengths {lens:?} (extend then stored {n} rows of ragged columns)"),
        )),
        (false, Err(e)) => rep.violations.push(("equal_batch_rejected".into(), format!("Batch::new panicked for equal column lengths {lens:?}: {e}"))),
    }
}

/// Build the batch through the safe constructor; if it returns, extend a world with it and check
/// the world afterwards. Returns the number of entities stored.
fn after_extend(w: &mut World<BReg>, ids: Vec<brood::entity::Identifier>, expect: usize) -> usize {
    let d = w.verif_dump();
    if let Err(e) = bvh::audit::audit(&d) {
        panic!("audit after extend: {e}");
    }
    assert_eq!(ids.len(), expect, "identifiers returned");
    assert_eq!(w.len(), expect, "len");
    w.len()
}

fn run_batches(rep: &mut Report) {
    let lens = [0usize, 1, 2, 3];
    for &a in &lens {
        let r = quiet(|| {
            let b = entities::Batch::new((v::<B0>(a, 10), entities::Null));
            let mut w = World::<BReg>::new();
            let ids = w.extend(b);
            after_extend(&mut w, ids, a)
        });
        batch_outcome(&[a], r, rep);
        for &b_ in &lens {
            let r = quiet(|| {
                let b = entities::Batch::new((v::<B1>(a, 10), (v::<B3>(b_, 20), entities::Null)));
                let mut w = World::<BReg>::new();
                let ids = w.extend(b);
                after_extend(&mut w, ids, a)
            });
            batch_outcome(&[a, b_], r, rep);
            for &c in &lens {
                let r = quiet(|| {
                    let b = entities::Batch::new((v::<B2>(a, 10), (v::<B0>(b_, 20), (v::<B1>(c, 30), entities::Null))));
                    let mut w = World::<BReg>::new();
                    let ids = w.extend(b);
                    after_extend(&mut w, ids, a)
                });
                batch_outcome(&[a, b_, c], r, rep);
                for &d in &lens {
                    let r = quiet(|| {
                        let b = entities::Batch::new((v::<B3>(a, 10), (v::<B1>(b_, 20), (v::<B0>(c, 30), (v::<B2>(d, 40), entities::Null)))));
                        let mut w = World::<BReg>::new();
                        let ids = w.extend(b);
                        after_extend(&mut w, ids, a)
                    });
                    batch_outcome(&[a, b_, c, d], r, rep);
                }
            }
        }
    }
    rep.samples.push("batch of 3 columns with lengths [2, 2, 1]: Batch::new must panic; lengths [2, 2, 2]: must return, extend stores 2 entities, audit clean".into());
}

fn main() {
    let args = bvh::cli::Args::parse();
    std::panic::set_hook(Box::new(|_| {}));
    let mut rep = Report::default();
    if args.cmd == "registries" || args.cmd == "all" {
        run_registries(&mut rep);
    }
    if args.cmd == "batches" || args.cmd == "all" {
        run_batches(&mut rep);
    }
    let _ = std::panic::take_hook();
    let sink = bvh::sink::drain();
    for e in sink {
        rep.violations.push((format!("memory:{}", e.kind), e.detail));
    }
    let j = serde_json::json!({
        "monitor": "ctor",
        "cases": rep.cases,
        "dup_registries": rep.dup_registries,
        "dup_registries_expected": N_DUP_REGISTRIES,
        "constructors_panicked": rep.constructors_panicked,
        "constructors_err": rep.constructors_err,
        "twins_returned": rep.twins_returned,
        "batches": rep.batches,
        "ragged_rejected": rep.ragged_rejected,
        "equal_accepted": rep.equal_accepted,
        "distinct": rep.distinct.len(),
        "samples": rep.samples,
        "violations": rep.violations.iter().map(|(s, d)| serde_json::json!({"prop": "C18", "sig": s, "detail": d})).collect::<Vec<_>>(),
    });
    bvh::cli::write_out(&args.str("out", "-"), &j.to_string());
    let _ = (resource::Null, <Med<0> as Payload>::K);
}
