use std::process::Command;
fn main() {
    let out = std::env::var("OUT_DIR").unwrap();
    println!("cargo:rerun-if-changed=../gen/gen_ctor.py");
    println!("cargo:rerun-if-changed=build.rs");
    let st = Command::new("python3").args(["../gen/gen_ctor.py", &format!("{out}/cases.rs")]).status().expect("run gen_ctor.py");
    assert!(st.success(), "gen_ctor.py failed");
}
