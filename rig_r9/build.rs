use std::process::Command;
fn main() {
    let out = std::env::var("OUT_DIR").unwrap();
    let seed = std::env::var("BVH_GEN_SEED").unwrap_or_else(|_| "1".into());
    let nq = std::env::var("BVH_GEN_NQ").unwrap_or_else(|_| "80".into());
    println!("cargo:rerun-if-env-changed=BVH_GEN_SEED");
    println!("cargo:rerun-if-env-changed=BVH_GEN_NQ");
    println!("cargo:rerun-if-changed=../gen/gen_rig.py");
    println!("cargo:rerun-if-changed=build.rs");
    // the 9-component registry is expensive to monomorphize: smaller parallel / system family
    let npar = std::env::var("BVH_GEN_NPAR").unwrap_or_else(|_| "12".into());
    println!("cargo:rerun-if-env-changed=BVH_GEN_NPAR");
    let st = Command::new("python3")
        .env("BVH_GEN_NPAR", npar)
        .args(["../gen/gen_rig.py", SPEC, &seed, &nq, &format!("{out}/rig.rs")])
        .status()
        .expect("run gen_rig.py");
    assert!(st.success(), "gen_rig.py failed");
}
const SPEC: &str = "R9:Med,Heap,Zst,Wide,Small,Med,Zst,Heap,Med:4:48:8";
