fn main() {
    rig_r9::main();
}
