include!(concat!(env!("OUT_DIR"), "/rig.rs"));
pub fn main() {
    bvh::cli::main::<R9>();
}
