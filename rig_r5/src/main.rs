fn main() {
    rig_r5::main();
}
