use std::process::Command;
fn main() {
    let out = std::env::var("OUT_DIR").unwrap();
    let seed = std::env::var("BVH_GEN_SEED").unwrap_or_else(|_| "1".into());
    let nq = std::env::var("BVH_GEN_NQ").unwrap_or_else(|_| "140".into());
    println!("cargo:rerun-if-env-changed=BVH_GEN_SEED");
    println!("cargo:rerun-if-env-changed=BVH_GEN_NQ");
    println!("cargo:rerun-if-changed=../gen/gen_rig.py");
    println!("cargo:rerun-if-changed=build.rs");
    let st = Command::new("python3")
        .args(["../gen/gen_rig.py", SPEC, &seed, &nq, &format!("{out}/rig.rs")])
        .status()
        .expect("run gen_rig.py");
    assert!(st.success(), "gen_rig.py failed");
}
const SPEC: &str = "R5:Med,Heap,Zst,Small,Wide:2:all:0";
